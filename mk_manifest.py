#!/usr/bin/env python3
"""Regenerates /verif/MANIFEST.json from the table below (keeps it schema-valid)."""
import json, subprocess, os

HERE = os.path.dirname(os.path.abspath(__file__))

def repo_commits(prefix):
    out = subprocess.check_output(["git", "-C", "/repo", "log", "--format=%h %s"]).decode().splitlines()
    return [l.split()[0] for l in out if l.split(" ", 1)[1].startswith(prefix)]

# id -> (engine, category, technique, level text, level note, design ref)
CHECKS = {
 "C01": ("H-seq", "exploration", "runtime invariant monitor over seeded operation histories (client-boundary observations after every operation)",
         "Aggregates = sums over iter_orders (plus total, snapshot fields, no duplicate listing) re-checked after every operation of thousands of mode-mixed random histories over all 7 order types and all rebuild routes; held-on-what-was-run, not a proof.",
         "Trusts the harness's own summation and the listing returned by iter_orders; most histories <= 80 operations on <= 10 resting orders, with scale tiers (31-1100 resting orders, 1500-9000 operations, mid / huge magnitudes, bulk scenarios up to 70 000 orders and 131 072 mutations between two listings, DESIGN.md 8.2); inputs per section 2.3 of DESIGN.md.", "4/C01"),
 "C02": ("H-seq", "exploration", "offline checker over recorded histories: per-call accounting + per-order lifetime ledger",
         "Every match result of every history is checked for executed+remaining, completion flag, transaction fields, fresh transaction ids and the filled-order list; a ledger per order incarnation bounds lifetime fills by supply adjusted by amendments.",
         "Same bounds as C01; ledger adjusts supply from the observations around a successful amend.", "4/C02"),
 "C04": ("H-seq", "exploration", "trace-specification monitor (priority stamps) with executable ticket model used only to classify known findings",
         "Every transaction of every history is judged against the statement's priority-stamp relation; a violated pair is accepted only if the catalogued queue mechanics (K1/K2) predict exactly that maker, otherwise it is a violation.",
         "Stamps are the harness's reading of the statement (add/re-add/replenish = now, partial fill/amend keep); silent replenishments get an interval stamp.", "4/C04"),
 "C05": ("grid + H-seq", "exploration", "exhaustive input grid + boundary cross-product on match_against judged by a statement-derived relation; same rules replayed through match_order histories",
         "Small grid and 64-bit boundary set enumerated completely on the public match_against; plus every transaction of sampled histories replayed through the statement's per-order machine and compared with the listing.",
         "Relation written from the statement; values between grid and boundary points are sampled (mid magnitudes drawn relative to the display), not enumerated.", "4/C05"),
 "C06": ("H-seq", "exploration", "bounded-progress monitor: logical step budget from the hook step counter, plus post-conditions on every match",
         "Liveness restated as bounded progress: every match of every zero-heavy history returns within 2*10^6 shared-memory steps, leaves no displayed quantity when unfilled, and executes at least min(requested, displayed).",
         "Cannot prove termination; generators keep legitimate matches below 10^4 replenishment rounds.", "4/C06"),
 "C07": ("H-seq", "exploration", "contract monitor on observation-before/after + twin-level differential execution (one twin additionally receives read-only calls)",
         "Every update of every update-heavy history is judged against the statement's contract (returned order = current state, only that order removed, unknown id / same-price price update without effect, amended display for Standard/PostOnly/Iceberg, never trades after removal); every history is re-run on a twin that also receives listing/snapshot/serialisation/statistics reads, and on a blind twin that receives no read-only call at all (not even the monitor's observations); all results and states must agree.",
         "Transaction timestamps are excluded from the twin comparison (wall clock); listings are compared as multisets.", "4/C07"),
 "C10": ("H-seq", "exploration", "round-trip monitor at random points of seeded histories + adversarial inputs with lying aggregate fields",
         "At random points of histories (so after fills, replenishments, amends) the level is rebuilt through all seven routes and compared field for field; each constructor is also fed a snapshot / level data / JSON / text whose aggregate fields disagree with its orders (package route with a harness-computed checksum so only recomputation can save it).",
         "Listings compared as multisets plus a separate non-decreasing-timestamp check.", "4/C10"),
 "C11": ("H-seq", "exploration", "twin-level differential execution (original vs restored) with the ticket model used only to classify known findings",
         "Each case restores a level reached by a random history through one of the four snapshot routes and applies the same random continuation (incl. a final drain) to both; differing maker sequences are accepted only when both are exactly what the catalogued queue mechanics predict and a catalogued cause (K3a/K3b) is present.",
         "Continuations of 2-10 operations plus drain; clean modes (increasing timestamps, exact fills, no id re-use) require plain equivalence.", "4/C11"),
 "C15": ("H-seq (+E1 for the concurrent half)", "exploration", "shadow-counter monitor fed from client-boundary events, compared with stats() after every operation",
         "orders_added / orders_removed / quantity_executed / value_executed are compared with counters derived from the operations issued and the results returned, after every operation of sequential histories (concurrent half: at quiescence of scheduled executions).",
         "Levels created with PriceLevel::new; orders carry the level price; positive quantities.", "4/C15"),
 "C19": ("queue", "exploration", "lock-step reference model (FIFO with removal by id) over seeded call sequences on OrderQueue; stale-ticket model only to classify K2",
         "Every pop / find / remove / len / is_empty / to_vec of random call sequences is compared with a reference FIFO; constructors (from_vec, From<Vec>, FromStr of Display, serde) are checked for content and list order; a disagreeing pop is tolerated only with the exact K2 signature, never in sequences that do not re-push a removed id.",
         "An id is never pushed while it is queued (as the statement quantifies).", "4/C19"),
 "C09": ("tamper", "fault_enumeration", "fault injection into serialized snapshot packages with an 'error or identical content' oracle",
         "For each package content: every single-character deletion / substitution / insertion over a 110-symbol alphabet at every offset, every truncation point, structural edits with the old checksum (scalar +-1, enum flips, order swap / drop / duplicate / retype / append, version, every checksum nibble, dropped members), a re-checksummed package under an unsupported version, and sampled fault pairs; a restore may only succeed with exactly the original content, the supported version and the content's own checksum (judged on the library's view AND on the harness's own reading of the accepted text).",
         "Contents are generated (all order types, both id formats, boundary values, history-reached levels); multi-fault combinations beyond pairs are not enumerated.", "4/C09"),
 "C03": ("E1 (+E2)", "exploration", "controlled-schedule execution (baton scheduler on hooked shared-memory operations) + offline per-order linearizability check of the client-boundary history against an executable per-order model",
         "Tens of thousands of (program, schedule) pairs per run: real threads, one shared-memory step at a time, rw / PCT / starvation / complete one-preemption sweeps, plus EVERY schedule with at most 2 (quick) / 4 (thorough) preemptions of a pool of ~290 tiny programs; at quiescence aggregates must equal sums, and for every order id some ordering of the successful operations (consistent with real time) must be explained by the statement's per-order machine and end in the listed state; the same checker over free-running E2 executions.",
         "Schedules are sampled, except the bounded-preemption enumeration over the tiny-program pool and the one-preemption sweeps; E1 is sequentially consistent at hook granularity; through-the-level iceberg tranche = documented size.", "4/C03"),
 "C08": ("E1 (+E2)", "exploration", "controlled-schedule execution + drain oracle at quiescence; exactly-once ledger over unique orders for the bare queue",
         "After every scheduled execution a draining match must execute exactly what each listed order can still trade and leave nothing displayed; queue programs (push / pop / remove / find / pop+re-push) are checked with an exactly-once ledger after a final pop-until-empty; plus a 16-thread free-running hammer of the queue.",
         "Schedules sampled; E1 treats each map / queue call as one step (E2 looks inside).", "4/C08"),
 "C12": ("E1 (+E2)", "exploration", "stop-the-world range monitor: the scheduler reads the aggregates after every single shared-memory step",
         "After EVERY step of every scheduled execution the three aggregates are read with the world stopped and compared with what calls that have started have submitted (bounds raised at the client boundary before the call); E2 adds polling readers against the program's total supply.",
         "Granularity = hooked operations (the property's own); E2 polling can miss nanosecond transients.", "4/C12"),
 "C13": ("E1 (+E2)", "exploration", "interval reasoning over the client-boundary history, with the hook event log used only to attribute known finding K4",
         "Every not-found reply of a cancel / move / amend on an order that rested before the call and was not removed is a violation unless the failed lookup lies inside another thread's hold interval (K4; exact through the hook event log in E1, through before/after-stamped map events in E2); a successful cancel must never be followed by a trade, a second hand-out or a listing of that order.",
         "Schedules sampled (plus bounded enumeration); the long exchange run uses a conservative overlap rule.", "4/C13"),
 "C14": ("E1 (+E2)", "exploration", "controlled-schedule execution of concurrent next() calls + set / sequence comparison with a sequential generator",
         "2-4 threads x 1-5 calls under the scheduler with the counter as a hooked atomic (a split read-modify-write gets a scheduling point between its halves); all ids distinct and equal to a sequential generator's set; 16 free-running threads x 60k calls.",
         "Schedules sampled; namespaces nil / max / random.", "4/C14"),
 "C16": ("codec", "exploration", "round-trip monitor over boundary grids (enumerated) and seeded random values of every text codec type",
         "parse(to_string(v)) == v for every generated value of the 13 text codec types; boundary grids (64-bit edges, all variants, both id formats, empty / multi-element lists) are enumerated, the rest sampled.",
         "Equality via the Debug form of all fields; levels / queues by content; snapshot text by price + aggregates (as the statement says).", "4/C16"),
 "C17": ("codec", "exploration", "round-trip monitor over boundary grids and seeded random values of every serde-enabled type, plus alias decoding and package re-validation",
         "from_str(to_string(v)) == v for every serde-enabled type incl. integers above 2^53 and externally tagged GTD; every accepted alias decodes to the same value; a snapshot package still validates after the trip.",
         "As C16.", "4/C17"),
 "C18": ("codec", "exploration", "mutation-based fault injection into valid encodings + hostile dictionary, every parse under catch_unwind with a hang watchdog",
         "All single character-level faults (incl. multi-byte symbols) and segment-level faults of ~100 (quick) valid encodings per run are fed to the matching FromStr / serde entry point, a hostile dictionary and all valid encodings to all 32 entry points; a panic or a hang (10 s in-process, confirmed 60 s alone in a subprocess) is a violation.",
         "Inputs not derived from a valid encoding or the dictionary are not explored by this tier (thorough adds libFuzzer).", "4/C18"),
}

NOT_YET = {}

def main():
    props = [json.loads(l) for l in open(os.path.join(HERE, "properties.jsonl"))]
    checks = []
    na = []
    for p in props:
        pid = p["id"]
        if pid in CHECKS:
            eng, cat, tech, text, note, ref = CHECKS[pid]
            checks.append({
                "property_id": pid,
                "quick_cmd": f"./check.sh {pid} quick",
                "thorough_cmd": f"./check.sh {pid} thorough",
                "evidence_file": f"/verif/evidence/{pid}.json",
                "replay_cmd_template": "./harness/target/release/plv replay {path}",
                "engine": eng,
                "level_claimed": {"category": cat, "text": text, "design_ref": f"DESIGN.md section {ref}"},
                "level_note": note,
                "technique": tech,
            })
        else:
            na.append({"property_id": pid, "reason": NOT_YET.get(pid, "check not built yet (construction in progress); design in DESIGN.md section 4")})
    m = {
        "version": 1,
        "setup_cmd": "cd /verif/harness && CARGO_NET_OFFLINE=true cargo build --release --offline",
        "hooks": {
            "guard": "cargo feature `verif-hooks` of pricelevel (off by default)",
            "enable": "the harness crate depends on pricelevel = { path = \"/repo\", features = [\"verif-hooks\"] }",
            "baseline_off_cmd": "cd /repo && (cargo nextest run --workspace --no-fail-fast --tool-config-file pb:/w/lib/nextest.toml --profile pb --test-threads 8 --offline || cargo test --workspace --no-fail-fast --offline)",
            "source_commits": repo_commits("verif-hooks"),
            "add_only": True,
        },
        "engines": [
            {"name": "H-seq", "path": "harness/src/hseq.rs", "serves_properties": ["C01", "C02", "C04", "C05", "C06", "C07", "C10", "C11", "C15"],
             "kind_free_text": "single-threaded seeded history engine; observations through the public API before/after every operation; monitors in harness/src/mon.rs; scale tiers per case and sparse-observation bulk scenarios (harness/src/bulk.rs) with an exact oracle"},
            {"name": "E1", "path": "harness/src/sched.rs", "serves_properties": ["C03", "C08", "C12", "C13", "C14", "C15"],
             "kind_free_text": "baton scheduler on the verif-hooks wrappers: real threads, one shared-memory step at a time, seeded rw/PCT/delay strategies, stop-the-world inspection"},
            {"name": "E2", "path": "harness/src/conc.rs", "serves_properties": ["C03", "C08", "C12", "C13", "C14", "C15"],
             "kind_free_text": "free-running threads on real cores with seeded delay injection at the hooks, per-call step budget; small programs + long 'exchange' workload + queue hammer; same client-boundary checkers"},
            {"name": "queue", "path": "harness/src/checks_queue.rs", "serves_properties": ["C19"],
             "kind_free_text": "lock-step reference FIFO over seeded call sequences on the exported OrderQueue"},
            {"name": "codec", "path": "harness/src/codec.rs", "serves_properties": ["C16", "C17", "C18", "C09"],
             "kind_free_text": "value generators (boundary grids + random), text / JSON round-trip monitors, mutation engine over valid encodings, tamper enumeration on snapshot packages; crash supervisor with breadcrumbs for aborts that escape catch_unwind"},
            {"name": "miri", "path": "harness/src/miri.rs", "serves_properties": ["C03", "C08", "C14"],
             "kind_free_text": "thorough tier: cargo +nightly miri run -- mini, many seeds: UB / data-race detection + basic-block preemption + weak-memory emulation under the same history checkers"},
            {"name": "tsan", "path": "harness/src/tsan.rs", "serves_properties": ["C08"],
             "kind_free_text": "thorough tier: -Zsanitizer=thread -Zbuild-std build of the queue hammer + free-running programs (backstop for races inside DashMap / SegQueue on the driven paths)"},
            {"name": "libfuzzer", "path": "harness/fuzz", "serves_properties": ["C18"],
             "kind_free_text": "thorough tier: cargo +nightly fuzz run parse (one target, 30 entry points), artifacts re-confirmed in the plain harness"},
        ],
        "checks": checks,
        "notes": "fix: commits in /repo: " + ", ".join(repo_commits("fix:")) + ". Known findings: /verif/known_findings.json.",
        "not_applicable": na,
    }
    json.dump(m, open(os.path.join(HERE, "MANIFEST.json"), "w"), indent=1)
    print("MANIFEST.json:", len(checks), "checks,", len(na), "not yet claimed")

main()
