#!/bin/bash
# usage: calibrate.sh [name-filter]
# Applies each /verif/mutants/*.patch to /repo in turn (reverting afterwards), runs the quick checks
# named in its .expect file (or, for an equivalent mutant with an empty .expect, a standard set
# that must stay silent) and appends the outcome to /verif/calibration.md.
cd /verif
F="${1:-}"
OUT=/verif/calibration.md
echo "" >> $OUT; echo "## calibration run $(date -u +%Y-%m-%dT%H:%MZ) (quick tier, seed ${VERIF_SEED:-1})" >> $OUT
echo "" >> $OUT; echo "| mutant | expected to fire | fired | silent |" >> $OUT; echo "|---|---|---|---|" >> $OUT
for p in mutants/*$F*.patch; do
  n=$(basename $p .patch); exp=$(cat mutants/$n.expect 2>/dev/null)
  ids="$exp"; [ -z "$ids" ] && ids="C01 C02 C07 C15 C19 C03"
  res=$(tools/seedrun.sh $p $ids 2>&1)
  fired=$(echo "$res" | awk '$2=="exit=1"{printf "%s ",$1}'); silent=$(echo "$res" | awk '$2=="exit=0"{printf "%s ",$1}'); other=$(echo "$res" | awk '$2!="exit=0" && $2!="exit=1"{printf "%s(%s) ",$1,$2}')
  echo "| $n | ${exp:-none (equivalent mutant)} | $fired | $silent $other |" >> $OUT
  echo "$n: expected [$exp] fired [$fired] silent [$silent] $other"
done
