//! Offline checkers over client-boundary histories of concurrent executions:
//! per-order linearization against the statement's per-order machine (C03), acknowledgement
//! truthfulness (C13), drain / reachability (C08), statistics (C15), id uniqueness (C14).

use crate::conc::{COp, CRec, CRes, Execution};
use crate::hook::Ev;
use crate::model::{self, Fate, Order};
use crate::mon;
use pricelevel::verif::Op;
use std::collections::{HashMap, HashSet};

#[derive(Clone, Debug)]
enum EvK {
    Fill { r: u64, q: u64 },
    Amend { q: u64, ret: Order },
    Cancel { ret: Order },
}

#[derive(Clone, Debug)]
struct LEv {
    k: EvK,
    call: u64,
    ret: u64,
    op_uid: usize,
    pos: usize,
}

pub struct LinStats {
    pub ids_searched: u64,
    pub nodes: u64,
    pub capped: u64,
}

const NODE_CAP: u64 = 1_000_000;

fn search(
    state: Option<Order>,
    used: u128,
    evs: &[LEv],
    fin: &Option<Order>,
    silent_ok: bool,
    seen: &mut HashSet<(u128, Option<(u64, u64)>)>,
    nodes: &mut u64,
) -> bool {
    *nodes += 1;
    if *nodes > NODE_CAP {
        return false;
    }
    if !seen.insert((used, state.map(|o| (model::vis(&o), model::hid(&o))))) {
        return false;
    }
    let n = evs.len();
    if used.count_ones() as usize == n {
        if state == *fin {
            return true;
        }
    }
    // silent zero-consumption step of an order with nothing displayed (visited by some match)
    if silent_ok {
        if let Some(o) = state {
            if model::vis(&o) == 0 {
                let s = model::spec_fill(&o, 1);
                match s.fate {
                    Fate::Stay(nx) => {
                        if nx != o && search(Some(nx), used, evs, fin, silent_ok, seen, nodes) {
                            return true;
                        }
                    }
                    Fate::Leave { .. } => {
                        if search(None, used, evs, fin, silent_ok, seen, nodes) {
                            return true;
                        }
                    }
                }
            }
        }
    }
    let cur = match state {
        Some(o) => o,
        None => return false, // gone, yet events remain (or final mismatch)
    };
    for i in 0..n {
        if used & (1u128 << i) != 0 {
            continue;
        }
        let e = &evs[i];
        // every unused event that must precede e blocks it
        let blocked = (0..n).any(|j| {
            j != i
                && used & (1u128 << j) == 0
                && (evs[j].ret < e.call || (evs[j].op_uid == e.op_uid && evs[j].pos < e.pos))
        });
        if blocked {
            continue;
        }
        let next: Option<Option<Order>> = match &e.k {
            EvK::Fill { r, q } => {
                let s = model::spec_fill(&cur, *r);
                if s.consumed == *q && *q > 0 {
                    Some(match s.fate {
                        Fate::Stay(nx) => Some(nx),
                        Fate::Leave { .. } => None,
                    })
                } else {
                    None
                }
            }
            EvK::Amend { q, ret } => {
                let want = if model::kind_of(&cur).amendable() {
                    model::with_qty(&cur, *q, model::hid(&cur))
                } else {
                    cur
                };
                if *ret == want {
                    Some(Some(want))
                } else {
                    None
                }
            }
            EvK::Cancel { ret } => {
                if *ret == cur {
                    Some(None)
                } else {
                    None
                }
            }
        };
        if let Some(ns) = next {
            if search(ns, used | (1u128 << i), evs, fin, silent_ok, seen, nodes) {
                return true;
            }
        }
    }
    false
}

/// C03: for every order id, some ordering of the operations that succeeded on it (consistent
/// with real time and with the order of transactions inside one match call) is explained by the
/// per-order machine and ends in the listed state.
pub fn per_order_linearizable(ex: &Execution, st: &mut LinStats) -> Vec<String> {
    per_order_lin_impl(ex, st, false)
}

/// The same search restricted to the orders with an acknowledged cancel or price move (C13: what
/// the acknowledgement handed back, and every fill of that order, must fit one ordering in which
/// nothing happens to the order after the cancel).
pub fn cancelled_orders_linearizable(ex: &Execution, st: &mut LinStats) -> Vec<String> {
    per_order_lin_impl(ex, st, true)
}

fn per_order_lin_impl(ex: &Execution, st: &mut LinStats, cancelled_only: bool) -> Vec<String> {
    let mut out = Vec::new();
    let mut start: HashMap<u128, Order> = HashMap::new();
    for o in &ex.prog.preload {
        start.insert(model::key(&model::id_of(o)), *o);
    }
    let mut evs: HashMap<u128, Vec<LEv>> = HashMap::new();
    let any_match = ex.log.iter().any(|r| matches!(r.op, COp::Match { .. }));
    for (uid, r) in ex.log.iter().enumerate() {
        match (&r.op, &r.res) {
            (COp::Add(o), CRes::Added) | (COp::Add(o), CRes::Open) => {
                start.insert(model::key(&model::id_of(o)), *o);
            }
            (COp::Match { qty, .. }, CRes::Matched(m)) => {
                let mut rem = *qty;
                for (pos, t) in m.transactions.as_vec().iter().enumerate() {
                    evs.entry(model::key(&t.maker_order_id)).or_default().push(LEv {
                        k: EvK::Fill { r: rem, q: t.quantity },
                        call: r.call,
                        ret: r.ret,
                        op_uid: uid,
                        pos,
                    });
                    rem = rem.saturating_sub(t.quantity);
                }
            }
            (COp::Amend { id, qty }, CRes::Updated(Ok(Some(x)))) => {
                evs.entry(model::key(id)).or_default().push(LEv {
                    k: EvK::Amend { q: *qty, ret: *x },
                    call: r.call,
                    ret: r.ret,
                    op_uid: uid,
                    pos: 0,
                });
            }
            (COp::Cancel(id), CRes::Updated(Ok(Some(x)))) | (COp::Move(id, _), CRes::Updated(Ok(Some(x)))) => {
                evs.entry(model::key(id)).or_default().push(LEv {
                    k: EvK::Cancel { ret: *x },
                    call: r.call,
                    ret: r.ret,
                    op_uid: uid,
                    pos: 0,
                });
            }
            _ => {}
        }
    }
    let mut ids: Vec<u128> = start.keys().copied().collect();
    for k in evs.keys() {
        if !ids.contains(k) {
            ids.push(*k);
        }
    }
    for o in &ex.final_obs.orders {
        let k = model::key(&model::id_of(o));
        if !ids.contains(&k) {
            ids.push(k);
        }
    }
    ids.sort();
    for k in ids {
        let fin = ex.final_obs.find(k).copied();
        let e = evs.remove(&k).unwrap_or_default();
        if cancelled_only && !e.iter().any(|x| matches!(x.k, EvK::Cancel { .. })) {
            continue;
        }
        let s0 = match start.get(&k) {
            Some(o) => *o,
            None => {
                out.push(format!(
                    "order {:x} was never added, yet {}",
                    k >> 64,
                    if fin.is_some() { "it is listed at the end" } else { "operations succeeded on it" }
                ));
                continue;
            }
        };
        if e.len() > 120 {
            st.capped += 1;
            continue;
        }
        st.ids_searched += 1;
        let mut seen = HashSet::new();
        let mut nodes = 0u64;
        let ok = search(Some(s0), 0, &e, &fin, any_match, &mut seen, &mut nodes);
        st.nodes += nodes;
        if !ok {
            if nodes > NODE_CAP {
                st.capped += 1;
                continue;
            }
            let mut desc: Vec<String> = e
                .iter()
                .map(|x| match &x.k {
                    EvK::Fill { r, q } => format!("[{}..{}] fill {} of taker remainder {}", x.call, x.ret, q, r),
                    EvK::Amend { q, ret } => format!("[{}..{}] amend to {} returned {}", x.call, x.ret, q, model::short(ret)),
                    EvK::Cancel { ret } => format!("[{}..{}] cancel returned {}", x.call, x.ret, model::short(ret)),
                })
                .collect();
            desc.sort();
            out.push(format!(
                "no ordering of the successful operations on {} explains the results: {}; final: {}",
                model::short(&s0),
                desc.join("; "),
                fin.map(|o| model::short(&o)).unwrap_or_else(|| "not listed".into())
            ));
        }
    }
    out
}

/// quiescent-point checks shared by C03: aggregates = sums, per-call accounting, unique tx ids
pub fn quiescent_basics(ex: &Execution) -> Vec<String> {
    let mut out = Vec::new();
    if let Err(e) = mon::obs_consistent(&ex.final_obs) {
        out.push(format!("at quiescence: {}", e));
    }
    let mut txids: HashSet<u128> = HashSet::new();
    for r in &ex.log {
        match (&r.op, &r.res) {
            (COp::Match { qty, .. }, CRes::Matched(m)) => {
                let exec: u128 = m.transactions.as_vec().iter().map(|t| t.quantity as u128).sum();
                if exec + m.remaining_quantity as u128 != *qty as u128 {
                    out.push(format!(
                        "T{}.{} match {}: executed {} + remaining {} != requested",
                        r.thread, r.idx, qty, exec, m.remaining_quantity
                    ));
                }
                for t in m.transactions.as_vec() {
                    if !txids.insert(t.transaction_id.as_u128()) {
                        out.push(format!("transaction id {} issued twice", t.transaction_id));
                    }
                    if t.quantity == 0 {
                        out.push("transaction with quantity 0".into());
                    }
                }
            }
            (_, CRes::Panicked(m)) => out.push(format!("T{}.{} {} panicked: {}", r.thread, r.idx, r.op.describe(), m)),
            _ => {}
        }
    }
    out
}

// ---------------------------------------------------------------------------------------------
// C13
// ---------------------------------------------------------------------------------------------

pub const SIG_K4: &str = "not-found-while-in-flight";
/// prefix of a checker message that is a verdict of "inconclusive", not a violation
pub const INCONCLUSIVE: &str = "INCONCLUSIVE: ";

#[derive(Default)]
pub struct AckStats {
    pub not_found: u64,
    pub truthful: u64,
    pub k4: u64,
    pub cancels_ok: u64,
    pub overlapped_by_matcher: u64,
}

/// intervals [s1, s2] during which thread t held order id k out of the map
/// (map-remove hit ... next map-insert of the same key by the same thread)
/// Intervals [s1, s2] (in event-sequence stamps) during which thread t had order k out of the map.
/// Primary source: the hook event log (map-remove hit ... next map-insert of the same key by the
/// same thread).  The instrumentation may be incomplete — a refactoring can reach the map through
/// an API the wrappers do not hook — so two conservative fall-backs widen the windows instead of
/// losing them: a remove whose re-insert was not seen is closed at the return of the client call
/// it belongs to; and a match / amend that visibly handled the order (a transaction names it, or
/// the amend returned it) although no remove of it was logged holds it for the whole call.
fn hold_intervals(ex: &Execution, stamps: &dyn Fn(usize) -> Vec<Ev>) -> Vec<(usize, u128, u64, u64)> {
    let mut out = Vec::new();
    let n_threads = ex.log.iter().map(|r| r.thread + 1).max().unwrap_or(0);
    // Is the order map observable at all?  An implementation that keeps its orders in some other
    // container reports no map insert / remove although orders are added and taken: then nothing
    // is known about who holds what, and any match call may be holding any order (a set-aside
    // order is named in no transaction) for as long as it runs.
    let map_events = (0..n_threads)
        .map(|t| stamps(t).iter().filter(|e| matches!(e.op, Op::MapInsert | Op::MapRemove)).count())
        .sum::<usize>();
    // (a match or an amend on the real containers always leaves a map event as soon as there is an
    // order to look at; with none at all, the few executions where really nothing was touched lose
    // nothing by the conservative reading)
    let map_activity = ex.log.iter().any(|r| matches!(r.op, COp::Match { .. } | COp::Amend { .. }));
    if map_events == 0 && map_activity {
        let mut ids: HashSet<u128> = ex.prog.preload.iter().map(|o| model::key(&model::id_of(o))).collect();
        for r in &ex.log {
            if let COp::Add(o) = &r.op {
                ids.insert(model::key(&model::id_of(o)));
            }
        }
        for r in &ex.log {
            match (&r.op, &r.res) {
                (COp::Match { .. }, _) => {
                    for k in &ids {
                        out.push((r.thread, *k, r.call, r.ret));
                    }
                }
                (COp::Amend { id, .. }, CRes::Updated(Ok(Some(_)))) => out.push((r.thread, model::key(id), r.call, r.ret)),
                _ => {}
            }
        }
        return out;
    }
    for t in 0..n_threads {
        let evs = stamps(t);
        for r in ex.log.iter().filter(|r| r.thread == t) {
            // only calls that put the order back can "hold" it
            let handled: Vec<u128> = match (&r.op, &r.res) {
                (COp::Match { .. }, CRes::Matched(m)) => m
                    .transactions
                    .as_vec()
                    .iter()
                    .map(|x| model::key(&x.maker_order_id))
                    .collect(),
                (COp::Amend { id, .. }, CRes::Updated(Ok(Some(_)))) => vec![model::key(id)],
                (COp::Match { .. }, _) | (COp::Amend { .. }, _) => vec![],
                _ => continue,
            };
            let inside: Vec<&Ev> = evs.iter().filter(|e| e.seq > r.call && e.seq < r.ret).collect();
            let mut seen_remove: HashSet<u128> = HashSet::new();
            let mut open: HashMap<u128, u64> = HashMap::new();
            let mut last_before: HashMap<u128, u64> = HashMap::new();
            for e in &inside {
                if !e.after {
                    last_before.insert(e.key, e.seq);
                    continue;
                }
                match e.op {
                    Op::MapRemove if e.hit => {
                        seen_remove.insert(e.key);
                        // the window starts before the remove began (matters for E2 stamps)
                        open.insert(e.key, *last_before.get(&e.key).unwrap_or(&e.seq));
                    }
                    Op::MapInsert => {
                        if let Some(s1) = open.remove(&e.key) {
                            out.push((t, e.key, s1, e.seq));
                        }
                    }
                    _ => {}
                }
            }
            // re-insert not seen: the order was back at the latest when the call returned
            for (k, s1) in open {
                out.push((t, k, s1, r.ret));
            }
            // handled without a logged remove: the whole call
            for k in handled {
                if !seen_remove.contains(&k) {
                    out.push((t, k, r.call, r.ret));
                }
            }
        }
    }
    out
}

pub fn ack_truthful(ex: &Execution, st: &mut AckStats) -> (Vec<String>, u64) {
    let mut out = Vec::new();
    let mut k4 = 0u64;
    let e1_events: Vec<Vec<Ev>> = ex.exec.as_ref().map(|e| e.events.clone()).unwrap_or_default();
    let holds = if ex.exec.is_some() {
        hold_intervals(ex, &|t| e1_events.get(t).cloned().unwrap_or_default())
    } else {
        hold_intervals(ex, &|t| ex.e2_events.get(t).cloned().unwrap_or_default())
    };
    let evs = ex.events();
    let pre: HashSet<u128> = ex.prog.preload.iter().map(|o| model::key(&model::id_of(o))).collect();
    // when did add(X) return
    let mut add_ret: HashMap<u128, u64> = HashMap::new();
    for r in &ex.log {
        if let (COp::Add(o), CRes::Added) = (&r.op, &r.res) {
            add_ret.insert(model::key(&model::id_of(o)), r.ret);
        }
    }
    // removals of X: (call, ret) of operations after which X is gone for good
    let mut removals: HashMap<u128, Vec<(u64, u64)>> = HashMap::new();
    for r in &ex.log {
        match (&r.op, &r.res) {
            (COp::Cancel(id), CRes::Updated(Ok(Some(_)))) | (COp::Move(id, _), CRes::Updated(Ok(Some(_)))) => {
                removals.entry(model::key(id)).or_default().push((r.call, r.ret))
            }
            (COp::Match { .. }, CRes::Matched(m)) => {
                for id in &m.filled_order_ids {
                    removals.entry(model::key(id)).or_default().push((r.call, r.ret));
                }
            }
            _ => {}
        }
    }
    // an order that is not listed at the end although nothing reported removing it must have left
    // silently (nothing displayed, visited by a match): any match call may be the one
    let silent_leavers: HashSet<u128> = pre
        .iter()
        .chain(add_ret.keys())
        .copied()
        .filter(|k| ex.final_obs.find(*k).is_none() && !removals.contains_key(k))
        .collect();
    for r in &ex.log {
        let (id, is_cancel) = match &r.op {
            COp::Cancel(id) | COp::Move(id, _) => (model::key(id), true),
            COp::Amend { id, .. } => (model::key(id), false),
            _ => continue,
        };
        match &r.res {
            CRes::Updated(Ok(None)) => {
                st.not_found += 1;
                let added_before = pre.contains(&id) || add_ret.get(&id).map(|t| *t < r.call).unwrap_or(false);
                if !added_before {
                    st.truthful += 1;
                    continue;
                }
                let removed_possibly_before = removals
                    .get(&id)
                    .map(|v| v.iter().any(|(c, _)| *c < r.ret))
                    .unwrap_or(false)
                    || silent_leavers.contains(&id);
                if removed_possibly_before {
                    st.truthful += 1;
                    continue;
                }
                // candidate: the order rested before the call began and nothing removed it
                let miss = evs.iter().find(|(t, e)| {
                    *t == r.thread
                        && e.after
                        && !e.hit
                        && e.key == id
                        && e.seq > r.call
                        && e.seq < r.ret
                        && matches!(e.op, Op::MapGet | Op::MapRemove)
                });
                let strictly_serial = ex.exec.as_ref().map(|e| e.blocked_events == 0).unwrap_or(false);
                let explained = if strictly_serial {
                    // E1 (one thread at a time throughout): exact attribution through the hook event
                    // log.  If a worker was presumed blocked, two threads may have overlapped and the
                    // event order is no longer exact: the conservative rule below is used instead
                    match miss {
                        Some((_, e)) => holds
                            .iter()
                            .any(|(t, k, s1, s2)| *t != r.thread && *k == id && *s1 < e.seq && e.seq < *s2),
                        // the call's own lookup was not reported (the map is reached through
                        // something the wrappers do not hook): any hold window of another
                        // thread that overlaps the call is taken as the explanation
                        None => holds
                            .iter()
                            .any(|(t, k, s1, s2)| *t != r.thread && *k == id && *s1 < r.ret && r.call < *s2),
                    }
                } else if !ex.e2_events.is_empty() {
                    // E2 with stamped map events: every event carries a stamp taken before and one
                    // taken after the operation, so the real moment lies inside that window.  A
                    // miss is explained iff its window overlaps a window in which another thread
                    // had the order out of the map (from before its remove to after its re-insert).
                    let mut misses: Vec<(u64, u64)> = Vec::new();
                    if let Some(evs) = ex.e2_events.get(r.thread) {
                        let mut last_before: u64 = 0;
                        for e in evs.iter().filter(|e| e.key == id && e.seq >= r.call && e.seq <= r.ret) {
                            if !e.after {
                                last_before = e.seq;
                            } else if !e.hit && matches!(e.op, Op::MapGet | Op::MapRemove) {
                                misses.push((last_before, e.seq));
                            }
                        }
                    }
                    if misses.is_empty() {
                        holds
                            .iter()
                            .any(|(t, k, h0, h1)| *t != r.thread && *k == id && *h0 < r.ret && r.call < *h1)
                    } else {
                        misses
                            .iter()
                            .all(|(m0, m1)| holds.iter().any(|(t, k, h0, h1)| *t != r.thread && *k == id && h0 <= m1 && m0 <= h1))
                    }
                } else {
                    // E2 (no event log): only a match, or an amend of the same order, issued by
                    // another thread can hold the order out of the map; if no such call overlaps
                    // this one at all, nobody could have held it (conservative: an overlap is
                    // taken as an explanation)
                    ex.log.iter().any(|q| {
                        q.thread != r.thread
                            && q.call < r.ret
                            && r.call < q.ret
                            && match &q.op {
                                COp::Match { .. } => true,
                                COp::Amend { id: i2, .. } => model::key(i2) == id,
                                _ => false,
                            }
                    })
                };
                if explained {
                    k4 += 1;
                    st.k4 += 1;
                } else {
                    out.push(format!(
                        "T{}.{} {} answered not-found, but the order was resting before the call began, nothing removed it, and no other thread was holding it at the moment of the lookup",
                        r.thread,
                        r.idx,
                        r.op.describe()
                    ));
                }
            }
            CRes::Updated(Ok(Some(_))) if is_cancel => {
                st.cancels_ok += 1;
                // nothing may happen to the order after a successful cancel has returned
                for q in &ex.log {
                    if q.call <= r.ret {
                        continue;
                    }
                    match (&q.op, &q.res) {
                        (COp::Match { .. }, CRes::Matched(m)) => {
                            if m.transactions.as_vec().iter().any(|t| model::key(&t.maker_order_id) == id) {
                                out.push(format!(
                                    "order {:x} traded (T{}.{}) after its cancel T{}.{} had returned success",
                                    id >> 64,
                                    q.thread,
                                    q.idx,
                                    r.thread,
                                    r.idx
                                ));
                            }
                        }
                        (COp::Cancel(i2), CRes::Updated(Ok(Some(_))))
                        | (COp::Move(i2, _), CRes::Updated(Ok(Some(_))))
                        | (COp::Amend { id: i2, .. }, CRes::Updated(Ok(Some(_))))
                            if model::key(i2) == id =>
                        {
                            out.push(format!(
                                "order {:x} was handed out again (T{}.{} {}) after its cancel T{}.{} had returned success",
                                id >> 64,
                                q.thread,
                                q.idx,
                                q.op.describe(),
                                r.thread,
                                r.idx
                            ));
                        }
                        _ => {}
                    }
                }
                if ex.final_obs.find(id).is_some() && ex.completed() {
                    out.push(format!(
                        "order {:x} is still listed at the end although its cancel T{}.{} returned success",
                        id >> 64,
                        r.thread,
                        r.idx
                    ));
                }
            }
            _ => {}
        }
        // non-triviality: a matcher's call overlapped this cancel / amend
        if ex.log.iter().any(|q| {
            q.thread != r.thread && matches!(q.op, COp::Match { .. }) && q.call < r.ret && r.call < q.ret
        }) {
            st.overlapped_by_matcher += 1;
        }
    }
    (out, k4)
}

// ---------------------------------------------------------------------------------------------
// C08: drain
// ---------------------------------------------------------------------------------------------

/// what one listed order can still trade when matched alone until it leaves or gets stuck
pub fn tradable(o: &Order) -> (u128, Option<Order>) {
    let mut cur = *o;
    let mut tot: u128 = 0;
    for _ in 0..100_000 {
        let s = model::spec_fill(&cur, u64::MAX);
        tot += s.consumed as u128;
        match s.fate {
            Fate::Leave { .. } => return (tot, None),
            Fate::Stay(n) => {
                if s.consumed == 0 && n == cur {
                    return (tot, Some(cur));
                }
                cur = n;
            }
        }
    }
    (tot, Some(cur))
}

pub fn drain_check(ex: &Execution) -> Vec<String> {
    let mut out = Vec::new();
    let before = &ex.final_obs;
    let total: u128 = before.sum_vis() + before.sum_hid();
    let huge = (total as u64).saturating_mul(4).saturating_add(1000);
    let taker = model::oid(8_888_888);
    // the drain runs under the step counter: a match that does not return is cut
    crate::hook::count_begin(crate::hseq::CALL_BUDGET);
    let r = crate::hook::quiet_catch(|| ex.level.match_order(huge, taker, &ex.idgen));
    crate::hook::count_end();
    let m = match r {
        Ok(m) => m,
        Err(p) => {
            let msg = crate::sched::panic_message(&*p);
            if msg == crate::hook::OVERRUN_MSG {
                out.push(format!("{}the draining match did not return within {} steps (termination is C06's subject)", INCONCLUSIVE, crate::hseq::CALL_BUDGET));
            } else {
                out.push(format!("draining match panicked: {}", msg));
            }
            return out;
        }
    };
    let after = crate::obs::observe(&ex.level);
    if let Some(o) = after.orders.iter().find(|o| model::vis(o) > 0) {
        out.push(format!(
            "after a draining match of {} the level still lists {} with displayed quantity (stranded order)",
            huge,
            model::short(o)
        ));
    }
    if let Err(e) = mon::obs_consistent(&after) {
        out.push(format!("after the draining match: {}", e));
    }
    let mut got: HashMap<u128, u128> = HashMap::new();
    for t in m.transactions.as_vec() {
        *got.entry(model::key(&t.maker_order_id)).or_default() += t.quantity as u128;
    }
    for o in &before.orders {
        let k = model::key(&model::id_of(o));
        let (want, rest) = tradable(o);
        let g = got.remove(&k).unwrap_or(0);
        if g != want {
            out.push(format!(
                "the draining match executed {} against {} but the order could trade {}",
                g,
                model::short(o),
                want
            ));
        }
        if after.find(k).copied() != rest {
            out.push(format!(
                "after the draining match {} should be {} but is {}",
                model::short(o),
                rest.map(|x| model::short(&x)).unwrap_or_else(|| "gone".into()),
                after.find(k).map(model::short).unwrap_or_else(|| "gone".into())
            ));
        }
    }
    for (k, q) in got {
        out.push(format!("the draining match executed {} against {:x}, which was not listed", q, k >> 64));
    }
    out
}

// ---------------------------------------------------------------------------------------------
// C15 at quiescence
// ---------------------------------------------------------------------------------------------

pub fn stats_vs_events(ex: &Execution) -> Vec<String> {
    let mut out = Vec::new();
    let mut want = [ex.prog.preload.len() as u128, 0, 0, 0];
    for r in &ex.log {
        match (&r.op, &r.res) {
            (COp::Add(_), CRes::Added) => want[0] += 1,
            (COp::Cancel(_), CRes::Updated(Ok(Some(_)))) | (COp::Move(_, _), CRes::Updated(Ok(Some(_)))) => want[1] += 1,
            (COp::Match { .. }, CRes::Matched(m)) => {
                for t in m.transactions.as_vec() {
                    want[2] += t.quantity as u128;
                    want[3] += t.quantity as u128 * ex.prog.price as u128;
                }
            }
            _ => {}
        }
    }
    let names = ["orders_added", "orders_removed", "quantity_executed", "value_executed"];
    for i in 0..4 {
        if ex.final_obs.stats[i] as u128 != want[i] {
            out.push(format!(
                "at quiescence {} = {} but the events of all threads give {}",
                names[i], ex.final_obs.stats[i], want[i]
            ));
        }
    }
    out
}

#[allow(dead_code)]
pub fn rec_count(l: &[CRec]) -> usize {
    l.len()
}
