//! The "ticket model": an executable model of the queue mechanics that are catalogued as known
//! findings K1–K3 (survivors of a match are re-queued at the tail; `remove(id)` leaves its
//! ticket behind; an amend is remove + push; a restored level has one ticket per listed order).
//!
//! It is consulted only to *classify* a deviation from the specification that some other
//! monitor has already detected (C04, C11, C19) — it never decides on its own that the code is
//! right, and it plays no part when the specification is satisfied.

use crate::model::{self, Fate, Order};
use pricelevel::OrderUpdate;
use std::collections::{HashMap, VecDeque};

#[derive(Clone, Debug)]
pub struct SimTx {
    pub maker: u128,
    pub qty: u64,
    /// time at which the ticket that led to this maker was appended
    pub ticket_time: u64,
    /// the ticket queue just before that ticket was taken (front first), incl. that ticket
    pub tickets_before: Vec<(u128, u64)>,
    /// logical time of this transaction
    pub at: u64,
}

#[derive(Clone, Debug, Default)]
pub struct Sim {
    pub price: u64,
    pub tickets: VecDeque<(u128, u64)>,
    pub live: HashMap<u128, Order>,
}

impl Sim {
    pub fn new(price: u64) -> Self {
        Sim {
            price,
            tickets: VecDeque::new(),
            live: HashMap::new(),
        }
    }

    pub fn add(&mut self, o: Order, now: u64) {
        let k = model::key(&model::id_of(&o));
        self.live.insert(k, o);
        self.tickets.push_back((k, now));
    }

    pub fn remove(&mut self, k: u128) -> Option<Order> {
        self.live.remove(&k)
    }

    pub fn amend(&mut self, k: u128, q: u64, now: u64) -> Option<Order> {
        let o = self.live.remove(&k)?;
        let n = if model::kind_of(&o).amendable() {
            model::with_qty(&o, q, model::hid(&o))
        } else {
            o
        };
        self.live.insert(k, n);
        self.tickets.push_back((k, now));
        Some(n)
    }

    pub fn update(&mut self, u: &OrderUpdate, now: u64) {
        match u {
            OrderUpdate::Cancel { order_id } => {
                self.remove(model::key(order_id));
            }
            OrderUpdate::UpdatePrice { order_id, new_price } => {
                if *new_price != self.price {
                    self.remove(model::key(order_id));
                }
            }
            OrderUpdate::UpdateQuantity {
                order_id,
                new_quantity,
            } => {
                self.amend(model::key(order_id), *new_quantity, now);
            }
            OrderUpdate::UpdatePriceAndQuantity {
                order_id,
                new_price,
                new_quantity,
            } => {
                if *new_price != self.price {
                    self.remove(model::key(order_id));
                } else {
                    self.amend(model::key(order_id), *new_quantity, now);
                }
            }
            OrderUpdate::Replace {
                order_id,
                price,
                quantity,
                ..
            } => {
                if *price != self.price {
                    self.remove(model::key(order_id));
                } else {
                    self.amend(model::key(order_id), *quantity, now);
                }
            }
        }
    }

    /// `now` is advanced by one per transaction.
    pub fn do_match(&mut self, qty: u64, now: &mut u64) -> (Vec<SimTx>, u64) {
        let mut remaining = qty;
        let mut out = Vec::new();
        let mut set_aside: Vec<(u128, Order)> = Vec::new();
        while remaining > 0 {
            let before: Vec<(u128, u64)> = self.tickets.iter().copied().collect();
            let mut got = None;
            while let Some((k, t)) = self.tickets.pop_front() {
                if let Some(o) = self.live.remove(&k) {
                    got = Some((k, t, o));
                    break;
                }
            }
            let (k, t, o) = match got {
                Some(x) => x,
                None => break,
            };
            let st = model::spec_fill(&o, remaining);
            if st.consumed > 0 {
                *now += 1;
                out.push(SimTx {
                    maker: k,
                    qty: st.consumed,
                    ticket_time: t,
                    tickets_before: before,
                    at: *now,
                });
            }
            remaining -= st.consumed;
            match st.fate {
                Fate::Stay(n) => {
                    if st.consumed == 0 && st.replenished == 0 {
                        set_aside.push((k, n));
                    } else {
                        self.live.insert(k, n);
                        self.tickets.push_back((k, *now));
                    }
                }
                Fate::Leave { .. } => {}
            }
        }
        for (k, n) in set_aside {
            self.live.insert(k, n);
            self.tickets.push_back((k, *now));
        }
        (out, remaining)
    }

    /// a level rebuilt from a listing: one ticket per order, in listed order
    pub fn from_listing(price: u64, listing: &[Order], now: u64) -> Self {
        let mut s = Sim::new(price);
        for o in listing {
            s.add(*o, now);
        }
        s
    }

    /// after a disagreement with the real level: take the observed orders, keep the tickets,
    /// and make sure every live order has at least one
    pub fn resync(&mut self, listing: &[Order], now: u64) {
        self.live.clear();
        for o in listing {
            let k = model::key(&model::id_of(o));
            self.live.insert(k, *o);
            if !self.tickets.iter().any(|(t, _)| *t == k) {
                self.tickets.push_back((k, now));
            }
        }
    }

    /// tickets whose id is live, front first (the effective queue)
    pub fn effective_order(&self) -> Vec<u128> {
        let mut seen = Vec::new();
        for (k, _) in &self.tickets {
            if self.live.contains_key(k) && !seen.contains(k) {
                seen.push(*k);
            }
        }
        seen
    }

    /// ids that own more than one surviving ticket, or a ticket while not live
    pub fn surplus_ids(&self) -> Vec<u128> {
        let mut cnt: HashMap<u128, usize> = HashMap::new();
        for (k, _) in &self.tickets {
            *cnt.entry(*k).or_default() += 1;
        }
        cnt.into_iter()
            .filter(|(k, n)| *n > 1 || !self.live.contains_key(k))
            .map(|(k, _)| k)
            .collect()
    }
}
