//! plv — runtime-monitoring harness for pricelevel (see /verif/DESIGN.md).
//!
//!   plv check <ID> [--tier quick|thorough] [--seed N]
//!   plv replay <path>

mod checks_c05;
mod checks_codec;
mod checks_conc;
mod conc;
mod lin;
mod miri;
mod tsan;
mod codec;
mod checks_seq;
mod fuzz;
mod checks_seq2;
mod checks_queue;
mod hook;
mod hseq;
mod model;
mod mon;
mod obs;
mod report;
mod rng;
mod sched;
mod sim;

use report::{Report, Tier};

fn silence_panics() {
    // panics inside monitored calls are caught and reported as findings; the default hook
    // would interleave thousands of backtraces with the verdict lines
    std::panic::set_hook(Box::new(|info| {
        if !hook::is_quiet() || std::env::var("PLV_SHOW_PANICS").is_ok() {
            eprintln!("panic: {}", info);
        }
    }));
}

fn seq_check(id: &str) -> Option<checks_seq::SeqCheck> {
    Some(match id {
        "C01" => checks_seq::c01(),
        "C02" => checks_seq::c02(),
        "C04" => checks_seq::c04(),
        "C06" => checks_seq::c06(),
        "C07" => checks_seq2::c07(),
        "C10" => checks_seq2::c10(),
        "C11" => checks_seq2::c11(),
        "C15" => checks_seq::c15_seq(),
        _ => return None,
    })
}

fn run_check(id: &str, tier: Tier, seed: u64) -> i32 {
    use checks_seq::{budget, run_seq, std_assumptions, RULE_HSEQ};
    match id {
        "C01" | "C02" | "C04" | "C06" | "C07" | "C10" | "C11" | "C15" => {
            let chk = seq_check(id).unwrap();
            let mut rep = Report::new(chk.prop, tier, seed, "exploration");
            std_assumptions(&mut rep);
            let (n, rule): (u64, &str) = match id {
                "C01" => (
                    budget(tier, 20_000, 3_000_000),
                    "non-trivial = history containing a fill->amend->fill or a fill/replenish->cancel composition on one order; the invariant (aggregates = sums over iter_orders, snapshot fields, total) is re-checked after every operation and after every rebuild route",
                ),
                "C02" => (
                    budget(tier, 20_000, 3_000_000),
                    "non-trivial = history with a match that produced >= 2 transactions (sweep over several makers or several replenishment rounds); per-call accounting + per-order lifetime ledger (supplied, adjusted by amendments, vs. sum of fills) kept across the whole history",
                ),
                "C04" => (
                    budget(tier, 25_000, 3_000_000),
                    "non-trivial = history with >= 2 transactions judged; every transaction is judged against the priority-stamp relation of the statement; only a violated pair is classified through the ticket model (K1 delayed / K2 advanced / unexplained = VIOLATION)",
                ),
                "C15" => (
                    budget(tier, 10_000, 1_000_000),
                    "non-trivial = history with at least one execution and one removal by cancel / price move; shadow counters fed from the client-visible events (add calls, successful cancels and moves, transaction quantities, quantity x level price) are compared with stats() after every operation",
                ),
                "C07" => (
                    budget(tier, 12_000, 1_500_000),
                    "non-trivial = history in which an update found an order that had been partially filled or replenished before; every update is judged against the statement's contract on observation-before/after, and every history is re-run on a twin level that additionally receives read-only calls (listing, snapshot, package, JSON, text, serde, statistics) at random points: all results and observations must agree",
                ),
                "C10" => (
                    budget(tier, 6_000, 500_000),
                    "non-trivial = history whose level, at a checked point, holds orders after at least one match traded; at random points and at the end the level is rebuilt through all seven routes and compared field for field, and constructors are fed snapshots / level data / JSON / text whose aggregate fields lie (with a harness-computed checksum for the package route)",
                ),
                "C11" => (
                    budget(tier, 15_000, 2_000_000),
                    "one case = (history, restore route, continuation): non-trivial = >= 2 orders at snapshot time and a continuation that trades; maker sequences of original and restored twin are compared; a divergence is accepted only if both sequences are exactly what the ticket model predicts and a catalogued cause (K3a listing order != queue order, K3b surplus tickets) is present",
                ),
                _ => (
                    budget(tier, 20_000, 3_000_000),
                    "non-trivial = history with a match issued against a level holding an order with nothing displayed; bounded progress: every match returns within the step budget, leaves no displayed quantity when it returns unfilled, executes >= min(requested, displayed at start)",
                ),
            };
            run_seq(&chk, &mut rep, n);
            let seq_rule = format!("{}{}", RULE_HSEQ, rule);
            if id == "C15" {
                // concurrent half: statistics at quiescence of scheduled / free-running executions
                let seq_eval = rep.evaluations;
                checks_conc::level_into(checks_conc::Which::C15, &mut rep);
                rep.set("sequential_histories", serde_json::json!(seq_eval));
                rep.rule = format!("{} || concurrent half: {}", seq_rule, rep.rule);
            } else {
                rep.rule = seq_rule;
            }
            rep.finish()
        }
        "C05" => checks_c05::run(tier, seed),
        "C19" => checks_queue::run(tier, seed),
        "C03" => checks_conc::run_level(checks_conc::Which::C03, tier, seed),
        "C12" => checks_conc::run_level(checks_conc::Which::C12, tier, seed),
        "C13" => checks_conc::run_level(checks_conc::Which::C13, tier, seed),
        "C08" => checks_conc::run_c08(tier, seed),
        "C14" => checks_conc::run_c14(tier, seed),
        "C16" => checks_codec::c16(tier, seed),
        "C17" => checks_codec::c17(tier, seed),
        "C18" => checks_codec::c18(tier, seed),
        "C09" => checks_codec::c09(tier, seed),
        _ => {
            eprintln!("unknown or unbuilt property id {}", id);
            3
        }
    }
}

fn replay(path: &str) -> i32 {
    let txt = match std::fs::read_to_string(path) {
        Ok(t) => t,
        Err(e) => {
            eprintln!("cannot read {}: {}", path, e);
            return 3;
        }
    };
    let v: serde_json::Value = serde_json::from_str(&txt).expect("replay file is not JSON");
    let r = &v["replay"];
    println!("replaying {}: {}", path, v["what"]);
    match r["engine"].as_str() {
        Some("e1") => checks_conc::replay_e1(r),
        Some("hseq") => {
            let prop = r["property"].as_str().unwrap_or("");
            let chk = match prop {
                "C05" => checks_seq::c05_level(),
                p => match seq_check(p) {
                    Some(c) => c,
                    None => {
                        eprintln!("no sequential check for {}", p);
                        return 3;
                    }
                },
            };
            checks_seq::replay_seq(&chk, r["case"].as_u64().unwrap(), r["seed"].as_u64().unwrap())
        }
        other => {
            println!("engine {:?}: the replay file itself holds the witness:\n{}", other, serde_json::to_string_pretty(r).unwrap());
            0
        }
    }
}

fn main() {
    silence_panics();
    let args: Vec<String> = std::env::args().collect();
    let cmd = args.get(1).map(|s| s.as_str()).unwrap_or("");
    let mut tier = match std::env::var("VERIF_TIER").ok().as_deref() {
        Some("thorough") => Tier::Thorough,
        _ => Tier::Quick,
    };
    let mut seed: u64 = std::env::var("VERIF_SEED").ok().and_then(|s| s.parse().ok()).unwrap_or(1);
    let mut i = 3;
    while i < args.len() {
        match args[i].as_str() {
            "--tier" => {
                tier = if args.get(i + 1).map(|s| s.as_str()) == Some("thorough") {
                    Tier::Thorough
                } else {
                    Tier::Quick
                };
                i += 1;
            }
            "--seed" => {
                seed = args.get(i + 1).and_then(|s| s.parse().ok()).unwrap_or(seed);
                i += 1;
            }
            _ => {}
        }
        i += 1;
    }
    let code = match cmd {
        "check" => run_check(args.get(2).map(|s| s.as_str()).unwrap_or(""), tier, seed),
        "replay" => replay(args.get(2).map(|s| s.as_str()).unwrap_or("")),
        "mini" => checks_conc::mini(
            args.get(2).and_then(|s| s.parse().ok()).unwrap_or(1),
            args.get(3).and_then(|s| s.parse().ok()).unwrap_or(2),
        ),
        "stress-queue" => {
            // used by the ThreadSanitizer build: hammer the queue and a few level programs
            let mut rep = Report::new("C08", Tier::Quick, seed, "exploration");
            checks_conc::run_queue_e2(
                &mut rep,
                args.get(2).and_then(|s| s.parse().ok()).unwrap_or(8),
                args.get(3).and_then(|s| s.parse().ok()).unwrap_or(20_000),
            );
            let c = checks_conc::mini(seed, 200);
            println!("STRESS-QUEUE violations={} mini={}", rep.total_violations, c);
            if rep.total_violations > 0 || c != 0 {
                1
            } else {
                0
            }
        }
        "parse-one" => checks_codec::parse_one(args.get(2).map(|s| s.as_str()).unwrap_or("")),
        _ => {
            eprintln!("usage: plv check <ID> [--tier quick|thorough] [--seed N] | plv replay <path>");
            3
        }
    };
    std::process::exit(code);
}
