//! plv — runtime-monitoring harness for pricelevel (see /verif/DESIGN.md).
//!
//!   plv check <ID> [--tier quick|thorough] [--seed N]
//!   plv replay <path>

mod bulk;
mod checks_c05;
mod checks_codec;
mod checks_conc;
mod conc;
mod lin;
mod miri;
mod tsan;
mod codec;
mod checks_seq;
mod fuzz;
mod checks_seq2;
mod checks_queue;
mod hook;
mod hseq;
mod model;
mod mon;
mod obs;
mod report;
mod rng;
mod sched;
mod sim;

use report::{Report, Tier};

fn silence_panics() {
    // panics inside monitored calls are caught and reported as findings; the default hook
    // would interleave thousands of backtraces with the verdict lines
    std::panic::set_hook(Box::new(|info| {
        if !hook::is_quiet() || std::env::var("PLV_SHOW_PANICS").is_ok() {
            eprintln!("panic: {}", info);
        }
    }));
}

fn seq_check(id: &str) -> Option<checks_seq::SeqCheck> {
    Some(match id {
        "C01" => checks_seq::c01(),
        "C02" => checks_seq::c02(),
        "C04" => checks_seq::c04(),
        "C06" => checks_seq::c06(),
        "C07" => checks_seq2::c07(),
        "C10" => checks_seq2::c10(),
        "C11" => checks_seq2::c11(),
        "C15" => checks_seq::c15_seq(),
        _ => return None,
    })
}

fn run_check(id: &str, tier: Tier, seed: u64) -> i32 {
    use checks_seq::{budget, run_seq, std_assumptions, RULE_HSEQ};
    match id {
        "C01" | "C02" | "C04" | "C06" | "C07" | "C10" | "C11" | "C15" => {
            let chk = seq_check(id).unwrap();
            let mut rep = Report::new(chk.prop, tier, seed, "exploration");
            std_assumptions(&mut rep);
            let (n, rule): (u64, &str) = match id {
                "C01" => (
                    budget(tier, 20_000, 3_000_000),
                    "non-trivial = history containing a fill->amend->fill or a fill/replenish->cancel composition on one order; the invariant (aggregates = sums over iter_orders, snapshot fields, total) is re-checked after every operation and after every rebuild route",
                ),
                "C02" => (
                    budget(tier, 20_000, 3_000_000),
                    "non-trivial = history with a match that produced >= 2 transactions (sweep over several makers or several replenishment rounds); per-call accounting + per-order lifetime ledger (supplied, adjusted by amendments, vs. sum of fills) kept across the whole history; plus seeded sequences of 0-7 transactions (quantities 0, exact remainder, over-fill, 64-bit edge values) appended to a fresh MatchResult: remaining = initial - sum (saturating), completion flag, list order, executed_quantity",
                ),
                "C04" => (
                    budget(tier, 25_000, 3_000_000),
                    "non-trivial = history with >= 2 transactions judged; every transaction is judged against the priority-stamp relation of the statement; only a violated pair is classified through the ticket model (K1 delayed / K2 advanced / unexplained = VIOLATION)",
                ),
                "C15" => (
                    budget(tier, 10_000, 1_000_000),
                    "non-trivial = history with at least one execution and one removal by cancel / price move; shadow counters fed from the client-visible events (add calls, successful cancels and moves, transaction quantities, quantity x level price) are compared with stats() after every operation",
                ),
                "C07" => (
                    budget(tier, 12_000, 1_500_000),
                    "non-trivial = history in which an update found an order that had been partially filled or replenished before; every update is judged against the statement's contract on observation-before/after, and every history is re-run on a twin level that additionally receives read-only calls (listing, snapshot, package, JSON, text, serde, statistics) at random points: all results and observations must agree",
                ),
                "C10" => (
                    budget(tier, 6_000, 500_000),
                    "non-trivial = history whose level, at a checked point, holds orders after at least one match traded; at random points and at the end the level is rebuilt through all seven routes and compared field for field, and constructors are fed snapshots / level data / JSON / text whose aggregate fields lie (with a harness-computed checksum for the package route)",
                ),
                "C11" => (
                    budget(tier, 15_000, 2_000_000),
                    "one case = (history, restore route, continuation): non-trivial = >= 2 orders at snapshot time and a continuation that trades; maker sequences of original and restored twin are compared; a divergence is accepted only if both sequences are exactly what the ticket model predicts and a catalogued cause (K3a listing order != queue order, K3b surplus tickets) is present",
                ),
                _ => (
                    budget(tier, 20_000, 3_000_000),
                    "non-trivial = history with a match issued against a level holding an order with nothing displayed; bounded progress: every match returns within the step budget, leaves no displayed quantity when it returns unfilled, executes >= min(requested, displayed at start)",
                ),
            };
            run_seq(&chk, &mut rep, n);
            if id != "C15" {
                // scale tier with sparse observation (see bulk.rs)
                let prop: &'static str = chk.prop;
                bulk::run(&mut rep, prop, budget(tier, 32, 1_200));
            }
            let seq_rule = format!("{}{}", RULE_HSEQ, rule);
            if id == "C02" {
                checks_seq::match_result_incremental(&mut rep, budget(tier, 50_000, 5_000_000));
            }
            if id == "C15" {
                // concurrent half: statistics at quiescence of scheduled / free-running executions
                let seq_eval = rep.evaluations;
                checks_conc::level_into(checks_conc::Which::C15, &mut rep);
                rep.set("sequential_histories", serde_json::json!(seq_eval));
                rep.rule = format!("{} || concurrent half: {}", seq_rule, rep.rule);
            } else {
                rep.rule = seq_rule;
            }
            rep.finish()
        }
        "C05" => checks_c05::run(tier, seed),
        "C19" => checks_queue::run(tier, seed),
        "C03" => checks_conc::run_level(checks_conc::Which::C03, tier, seed),
        "C12" => checks_conc::run_level(checks_conc::Which::C12, tier, seed),
        "C13" => checks_conc::run_level(checks_conc::Which::C13, tier, seed),
        "C08" => checks_conc::run_c08(tier, seed),
        "C14" => checks_conc::run_c14(tier, seed),
        "C16" => checks_codec::c16(tier, seed),
        "C17" => checks_codec::c17(tier, seed),
        "C18" => checks_codec::c18(tier, seed),
        "C09" => checks_codec::c09(tier, seed),
        _ => {
            eprintln!("unknown or unbuilt property id {}", id);
            3
        }
    }
}

fn replay(path: &str) -> i32 {
    let txt = match std::fs::read_to_string(path) {
        Ok(t) => t,
        Err(e) => {
            eprintln!("cannot read {}: {}", path, e);
            return 3;
        }
    };
    let v: serde_json::Value = serde_json::from_str(&txt).expect("replay file is not JSON");
    let r = &v["replay"];
    println!("replaying {}: {}", path, v["what"]);
    match r["engine"].as_str() {
        Some("e1") | Some("e1-bounded") => checks_conc::replay_e1(r),
        Some("hseq") => {
            let prop = r["property"].as_str().unwrap_or("");
            let chk = match prop {
                "C05" => checks_seq::c05_level(),
                p => match seq_check(p) {
                    Some(c) => c,
                    None => {
                        eprintln!("no sequential check for {}", p);
                        return 3;
                    }
                },
            };
            checks_seq::replay_seq(&chk, r["case"].as_u64().unwrap(), r["seed"].as_u64().unwrap())
        }
        Some("bulk") => bulk::replay(r["property"].as_str().unwrap_or(""), r["seed"].as_u64().unwrap(), r["case"].as_u64().unwrap()),
        other => {
            println!("engine {:?}: the replay file itself holds the witness:\n{}", other, serde_json::to_string_pretty(r).unwrap());
            0
        }
    }
}

/// Runs the check in a child process.  An allocation failure, stack overflow or other abort
/// inside the library kills the process and escapes `catch_unwind`; the supervisor turns that
/// into a verdict instead of a dead check: for the codec checks the run is repeated in "careful"
/// mode (every input is written to a breadcrumb file before it is parsed) so that the input that
/// kills the process can be named.
fn supervise(args: &[String], id: &str, tier: Tier, seed: u64) -> i32 {
    use std::process::Command;
    let exe = match std::env::current_exe() {
        Ok(e) => e,
        Err(_) => return run_check(id, tier, seed),
    };
    // generous wall-clock cap: its firing is a verdict of "inconclusive" (a call blocked on a
    // lock executes no step, so no logical budget can see it), never a violation
    let cap = std::time::Duration::from_secs(
        std::env::var("PLV_WALL_CAP_S").ok().and_then(|s| s.parse().ok()).unwrap_or(tier.pick(1_800, 6 * 3_600)),
    );
    let timed_out = std::cell::Cell::new(false);
    let run = |careful: Option<&str>| -> Option<std::process::ExitStatus> {
        let mut c = Command::new(&exe);
        c.args(&args[1..]).env("PLV_INNER", "1");
        if let Some(p) = careful {
            c.env("PLV_CAREFUL", p);
        }
        let mut child = c.spawn().ok()?;
        let t0 = std::time::Instant::now();
        loop {
            match child.try_wait() {
                Ok(Some(st)) => return Some(st),
                Ok(None) => {
                    if t0.elapsed() > cap {
                        let _ = child.kill();
                        let _ = child.wait();
                        timed_out.set(true);
                        return None;
                    }
                    std::thread::sleep(std::time::Duration::from_millis(100));
                }
                Err(_) => return None,
            }
        }
    };
    let st = match run(None) {
        Some(s) => s,
        None if timed_out.get() => {
            let mut rep = Report::new(prop_static(id), tier, seed, "other");
            rep.set(
                "explanation",
                serde_json::json!(format!("the check did not finish within its wall-clock cap of {} s and was stopped; nothing is concluded (a call that blocks on a lock executes no hooked step, so the logical step budgets cannot see it)", cap.as_secs())),
            );
            rep.evaluations = 1;
            rep.rule = "wall-clock cap: see explanation".into();
            rep.min_nontrivial = u64::MAX; // never "held"
            rep.inconclusive(format!("wall-clock cap of {} s exceeded", cap.as_secs()));
            return rep.finish();
        }
        None => return run_check(id, tier, seed),
    };
    if let Some(c) = st.code() {
        if c <= 3 {
            return c;
        }
        if c == 101 {
            println!("HARNESS-ERROR: the check process panicked outside a monitored call");
            return 3;
        }
    }
    let how = format!("{:?}", st);
    println!("CRASH: the check process died ({}): an abort inside the library escapes catch_unwind", how);
    let codec = matches!(id, "C09" | "C16" | "C17" | "C18");
    if !codec {
        println!("HARNESS-ERROR: process death in a non-codec check is not attributed to an input");
        return 3;
    }
    // second attempt with breadcrumbs
    let dir = report::verif_dir();
    let _ = std::fs::create_dir_all(format!("{}/replays", dir));
    let base = format!("{}/replays/crumb-{}-{}", dir, id, std::process::id());
    let st2 = run(Some(&base));
    let died_again = st2.map(|s| s.code().map(|c| c > 3 && c != 101).unwrap_or(true)).unwrap_or(false);
    // newest breadcrumb file = the input being parsed when the process died
    let mut crumbs: Vec<(std::time::SystemTime, std::path::PathBuf)> = Vec::new();
    if let Ok(rd) = std::fs::read_dir(format!("{}/replays", dir)) {
        for f in rd.flatten() {
            let name = f.file_name().to_string_lossy().to_string();
            if name.starts_with(&format!("crumb-{}-{}", id, std::process::id())) {
                if let Ok(m) = f.metadata().and_then(|m| m.modified()) {
                    crumbs.push((m, f.path()));
                }
            }
        }
    }
    crumbs.sort();
    let mut rep = Report::new(prop_static(id), tier, seed, "other");
    rep.set("explanation", serde_json::json!("the check's worker process was killed by an abort inside the library (allocation failure / stack overflow escape catch_unwind); the supervisor repeated the run with per-input breadcrumbs to name the input"));
    rep.evaluations = 1;
    rep.distinct.insert(1);
    rep.distinct.insert(2);
    rep.rule = "crash supervision: see explanation".into();
    if died_again {
        // every thread's last breadcrumb is a candidate; confirm each alone in a subprocess
        let mut confirmed = 0;
        for (_, path) in crumbs.iter().rev() {
            let txt = std::fs::read_to_string(path).unwrap_or_default();
            let mut it = txt.splitn(2, '\n');
            let entry = it.next().unwrap_or("").to_string();
            let input = it.next().unwrap_or("").to_string();
            if entry.is_empty() {
                continue;
            }
            let alone = crash_alone(&exe, &entry, &input);
            if alone {
                confirmed += 1;
                rep.violation(
                    format!(
                        "{} aborts the process (no error, no panic that could be caught) on {:?}",
                        entry,
                        &input[..input.char_indices().nth(160).map(|x| x.0).unwrap_or(input.len())]
                    ),
                    serde_json::json!({"engine": "crash-supervisor", "entry": entry, "input": input, "process": how}),
                );
            }
        }
        if confirmed == 0 {
            rep.violation(
                format!("the library aborted the check process twice ({}), but no single breadcrumb input reproduces it alone", how),
                serde_json::json!({"engine": "crash-supervisor", "process": how}),
            );
        }
    } else {
        rep.inconclusive(format!("the check process died once ({}) and completed on the careful second attempt", how));
        rep.min_nontrivial = 0;
    }
    for (_, p) in &crumbs {
        let _ = std::fs::remove_file(p);
    }
    rep.finish()
}

fn prop_static(id: &str) -> &'static str {
    const IDS: [&str; 19] = [
        "C01", "C02", "C03", "C04", "C05", "C06", "C07", "C08", "C09", "C10", "C11", "C12", "C13", "C14", "C15", "C16", "C17", "C18", "C19",
    ];
    IDS.iter().find(|x| **x == id).copied().unwrap_or("C00")
}

/// true iff parsing `input` with `entry` alone kills a subprocess
fn crash_alone(exe: &std::path::Path, entry: &str, input: &str) -> bool {
    use std::io::Write;
    use std::process::{Command, Stdio};
    // round-trip monitors label their inputs with the type name: map to the parse entry
    let entry_name = if entry.starts_with("json:") || entry.contains("snapshot_json") || entry.contains("from_json") {
        entry.to_string()
    } else {
        entry.split('(').next().unwrap_or(entry).to_string()
    };
    let mut any = false;
    for cand in [entry_name.clone(), format!("json:{}", entry_name)] {
        let child = Command::new(exe)
            .arg("parse-one")
            .arg(&cand)
            .stdin(Stdio::piped())
            .stdout(Stdio::null())
            .stderr(Stdio::null())
            .spawn();
        if let Ok(mut ch) = child {
            if let Some(mut si) = ch.stdin.take() {
                let _ = si.write_all(input.as_bytes());
            }
            if let Ok(st) = ch.wait() {
                if st.code().map(|c| c > 3).unwrap_or(true) {
                    any = true;
                }
            }
        }
    }
    any
}

fn main() {
    silence_panics();
    let args: Vec<String> = std::env::args().collect();
    let cmd = args.get(1).map(|s| s.as_str()).unwrap_or("");
    let mut tier = match std::env::var("VERIF_TIER").ok().as_deref() {
        Some("thorough") => Tier::Thorough,
        _ => Tier::Quick,
    };
    let mut seed: u64 = std::env::var("VERIF_SEED").ok().and_then(|s| s.parse().ok()).unwrap_or(1);
    let mut i = 3;
    while i < args.len() {
        match args[i].as_str() {
            "--tier" => {
                tier = if args.get(i + 1).map(|s| s.as_str()) == Some("thorough") {
                    Tier::Thorough
                } else {
                    Tier::Quick
                };
                i += 1;
            }
            "--seed" => {
                seed = args.get(i + 1).and_then(|s| s.parse().ok()).unwrap_or(seed);
                i += 1;
            }
            _ => {}
        }
        i += 1;
    }
    let code = match cmd {
        "check" if std::env::var("PLV_INNER").is_err() => supervise(&args, args.get(2).map(|s| s.as_str()).unwrap_or(""), tier, seed),
        "check" => run_check(args.get(2).map(|s| s.as_str()).unwrap_or(""), tier, seed),
        "replay" => replay(args.get(2).map(|s| s.as_str()).unwrap_or("")),
        "mini" => checks_conc::mini(
            args.get(2).and_then(|s| s.parse().ok()).unwrap_or(1),
            args.get(3).and_then(|s| s.parse().ok()).unwrap_or(2),
        ),
        "stress-queue" => {
            // used by the ThreadSanitizer build: hammer the queue and a few level programs
            let mut rep = Report::new("C08", Tier::Quick, seed, "exploration");
            checks_conc::run_queue_e2(
                &mut rep,
                args.get(2).and_then(|s| s.parse().ok()).unwrap_or(8),
                args.get(3).and_then(|s| s.parse().ok()).unwrap_or(20_000),
            );
            let c = checks_conc::mini(seed, 200);
            println!("STRESS-QUEUE violations={} mini={}", rep.total_violations, c);
            if rep.total_violations > 0 || c != 0 {
                1
            } else {
                0
            }
        }
        "mini-codec" => checks_codec::mini_codec(
            args.get(2).and_then(|s| s.parse().ok()).unwrap_or(1),
            args.get(3).and_then(|s| s.parse().ok()).unwrap_or(2),
        ),
        "parse-one" => checks_codec::parse_one(args.get(2).map(|s| s.as_str()).unwrap_or("")),
        _ => {
            eprintln!("usage: plv check <ID> [--tier quick|thorough] [--seed N] | plv replay <path>");
            3
        }
    };
    std::process::exit(code);
}
