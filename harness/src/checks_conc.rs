//! Concurrent checks on the E1 baton scheduler (primary) and E2 free-running stress (secondary):
//! C03 C08 C12 C13 C14 C15.

use crate::checks_seq::budget;
use crate::conc::{self, Bounds, COp, CRes, Execution, ProgCfg, Program};
use crate::lin::{self, AckStats, LinStats};
use crate::model;
use crate::report::{ncpu, parallel, Report, Tier};
use crate::rng::{fnv_mix, Rng};
use crate::sched::{self, Body, Inspect, Strategy, Verdict, Worker};
use pricelevel::verif::Op;
use pricelevel::{OrderQueue, PriceLevel, UuidGenerator};
use serde_json::{json, Value};
use std::collections::{BTreeMap, HashMap, HashSet};
use std::sync::{Arc, Mutex};
use uuid::Uuid;

pub const STEP_BUDGET: u64 = 20_000;

#[derive(Clone, Copy, PartialEq, Eq, Debug)]
pub enum Which {
    C03,
    C08,
    C12,
    C13,
    C15,
}

impl Which {
    fn id(self) -> &'static str {
        match self {
            Which::C03 => "C03",
            Which::C08 => "C08",
            Which::C12 => "C12",
            Which::C13 => "C13",
            Which::C15 => "C15",
        }
    }
}

fn prog_cfg(which: Which, variant: u64) -> ProgCfg {
    let mut c = ProgCfg::base();
    match which {
        Which::C13 => {
            // biased to cancel / amend on the ids being matched
            c.w = [8, 34, 28, 26, 4];
        }
        Which::C12 => {
            c.w = [22, 30, 16, 26, 6];
        }
        Which::C15 => {
            c.w = [22, 38, 22, 14, 4];
            c.zero_pct = 0;
        }
        Which::C08 => {
            c.w = [20, 36, 16, 22, 6];
            c.zero_pct = 8;
        }
        Which::C03 => {}
    }
    if variant % 5 == 4 {
        c.all_kinds = true;
    }
    if variant % 7 == 6 {
        c.threads = (2, 2);
        c.ops = (2, 4);
    }
    if variant % 9 == 8 {
        c.deep = true;
    }
    if variant % 13 == 12 {
        // a fresh level: the first add races with everything else
        c.preload = (0, 0);
        c.w = [40, 25, 20, 12, 3];
    }
    if variant % 11 == 10 {
        // larger programs: 4 threads x up to 6 operations
        c.threads = (4, 4);
        c.ops = (3, 6);
        c.preload = (2, 5);
    }
    c
}

pub fn strategy_for(rng: &mut Rng, k: u64) -> Strategy {
    if k % 8 == 7 {
        return Strategy::Starve {
            victim: rng.usize_below(2),
            burst: 1 + rng.below(4) as u32,
        };
    }
    match k % 4 {
        0 | 1 => Strategy::Rw,
        _ => Strategy::Pct {
            depth: 1 + rng.below(3) as u32,
            est_len: 30 + rng.below(60) as u32,
        },
    }
}

fn parse_strategy(s: &str) -> Strategy {
    if let Some(rest) = s.strip_prefix("script(") {
        return Strategy::Script {
            choices: rest.bytes().filter(|b| b.is_ascii_digit()).map(|b| b - b'0').collect(),
        };
    }
    let nums: Vec<u32> = s
        .split(|c: char| !c.is_ascii_digit())
        .filter(|x| !x.is_empty())
        .filter_map(|x| x.parse().ok())
        .collect();
    if s.starts_with("starve") && nums.len() >= 2 {
        return Strategy::Starve {
            victim: nums[0] as usize,
            burst: nums[1],
        };
    }
    if s.starts_with("pct") && nums.len() >= 2 {
        Strategy::Pct {
            depth: nums[0],
            est_len: nums[1],
        }
    } else if s.starts_with("delay") && nums.len() >= 3 {
        Strategy::Delay {
            victim: nums[0] as usize,
            at: nums[1],
            len: nums[2],
        }
    } else {
        Strategy::Rw
    }
}

struct Cov {
    schedules: HashSet<u64>,
    programs: HashSet<u64>,
    sites: HashSet<(Op, u32)>,
    site_names: HashSet<String>,
    pairs: HashSet<(Op, u32, Op, u32)>,
    steps: u64,
    inspections: u64,
    blocked: u64,
}

fn judge_execution(which: Which, ex: &Execution, range_viol: &[String], part: &mut Report, lst: &mut LinStats, ast: &mut AckStats) -> Vec<String> {
    let mut out = Vec::new();
    match which {
        Which::C03 => {
            out.extend(lin::quiescent_basics(ex));
            out.extend(lin::per_order_linearizable(ex, lst));
        }
        Which::C08 => {
            // the drain is C08's own oracle; quiescent consistency first
            if let Err(e) = crate::mon::obs_consistent(&ex.final_obs) {
                out.push(format!("at quiescence: {}", e));
            }
            out.extend(lin::drain_check(ex));
        }
        Which::C12 => {
            out.extend(range_viol.iter().cloned());
            for r in &ex.log {
                if let CRes::Panicked(m) = &r.res {
                    out.push(format!("T{}.{} {} panicked: {}", r.thread, r.idx, r.op.describe(), m));
                }
            }
        }
        Which::C13 => {
            let (v, k4) = lin::ack_truthful(ex, ast);
            out.extend(v);
            if k4 > 0 {
                part.known(lin::SIG_K4, k4);
            }
            {
                let mut lst = LinStats { ids_searched: 0, nodes: 0, capped: 0 };
                for f in lin::cancelled_orders_linearizable(ex, &mut lst) {
                    out.push(format!("acknowledged cancel does not fit the order's history: {}", f));
                }
                part.add("cancelled_order_histories_searched", lst.ids_searched);
            }
        }
        Which::C15 => {
            out.extend(lin::stats_vs_events(ex));
        }
    }
    out
}

fn replay_value(which: Which, seed: u64, pi: u64, strat: &Strategy, sseed: u64, ex: &Execution, finding: &str) -> Value {
    json!({
        "engine": "e1",
        "property": which.id(),
        "seed": seed,
        "program_index": pi,
        "strategy": strat.describe(),
        "sched_seed": sseed,
        "finding": finding,
        "execution": ex.describe(),
        "schedule": ex.exec.as_ref().map(|e| e.trace.iter().map(|(t, op, line)| format!("T{}:{:?}@{}", t, op, line)).collect::<Vec<_>>()),
    })
}

fn make_program(which: Which, seed: u64, pi: u64) -> Program {
    let mut rng = Rng::derive(seed ^ 0xe1e1, pi);
    let cfg = prog_cfg(which, pi);
    conc::gen_program(&mut rng, &cfg)
}

fn run_one(
    which: Which,
    prog: &Program,
    strat: Strategy,
    sseed: u64,
    cov: &mut Cov,
) -> (Execution, Vec<String>) {
    let mut range_viol: Vec<String> = Vec::new();
    let mut inspections = 0u64;
    let ex = conc::run_e1(prog, strat, sseed, STEP_BUDGET, &mut |i: &Inspect, level: &PriceLevel, b: &Bounds| {
        inspections += 1;
        if which != Which::C12 {
            return;
        }
        use std::sync::atomic::Ordering::SeqCst;
        let (v, h, c) = (level.visible_quantity(), level.hidden_quantity(), level.order_count() as u64);
        let (bt, bh, ba) = (b.total.load(SeqCst), b.hidden.load(SeqCst), b.adds.load(SeqCst));
        if (v > bt || h > bh || c > ba) && range_viol.len() < 3 {
            range_viol.push(format!(
                "after step {} (T{} {:?} at line {}): visible={} hidden={} count={} but only total={} hidden={} orders={} have been submitted so far",
                i.step, i.worker, i.site.op, i.site.line, v, h, c, bt, bh, ba
            ));
        }
    });
    if let Some(e) = &ex.exec {
        cov.steps += e.steps;
        cov.blocked += e.blocked_events;
        cov.schedules.insert(fnv_mix(e.trace_hash, prog.hash()));
        cov.sites.extend(e.sites.iter().copied());
        for ((op, line), file) in &e.site_files {
            if *line > 0 {
                cov.site_names.insert(format!("{}:{} {:?}", file.rsplit('/').next().unwrap_or(file), line, op));
            }
        }
        cov.pairs.extend(e.switch_pairs.iter().copied());
    }
    cov.inspections += inspections;
    cov.programs.insert(prog.hash());
    (ex, range_viol)
}

pub fn run_level(which: Which, tier: Tier, seed: u64) -> i32 {
    let mut rep = Report::new(which.id(), tier, seed, "exploration");
    level_into(which, &mut rep);
    rep.finish()
}

/// Runs the E1 + E2 level programs for `which` and adds what was observed to `rep`.
pub fn level_into(which: Which, rep: &mut Report) {
    let prop = which.id();
    let tier = rep.tier;
    let seed = rep.seed;
    let n_prog = budget(tier, 2_500, 60_000);
    let per_prog = budget(tier, 8, 24);
    let n_sweep = budget(tier, 40, 1_500);
    let nw = ncpu();
    let covs: Mutex<Vec<Cov>> = Mutex::new(Vec::new());
    parallel(nw, rep, |w| {
        let mut part = Report::new(prop, tier, seed, "exploration");
        let mut cov = Cov {
            schedules: HashSet::new(),
            programs: HashSet::new(),
            sites: HashSet::new(),
            site_names: HashSet::new(),
            pairs: HashSet::new(),
            steps: 0,
            inspections: 0,
            blocked: 0,
        };
        let mut lst = LinStats {
            ids_searched: 0,
            nodes: 0,
            capped: 0,
        };
        let mut ast = AckStats::default();
        let mut strat_count: BTreeMap<&'static str, u64> = BTreeMap::new();
        let mut handle = |ex: Execution, rv: Vec<String>, pi: u64, strat: &Strategy, sseed: u64, part: &mut Report, lst: &mut LinStats, ast: &mut AckStats| {
            part.evaluations += 1;
            let e = ex.exec.as_ref().unwrap();
            match e.verdict {
                Verdict::Watchdog => {
                    part.inconclusive(format!("[program {} {}] wall-clock watchdog fired", pi, strat.describe()));
                    return;
                }
                Verdict::Overrun => {
                    part.inconclusive(format!(
                        "[program {} {}] step budget {} exceeded (termination is C06's subject)",
                        pi,
                        strat.describe(),
                        STEP_BUDGET
                    ));
                    return;
                }
                Verdict::Completed => {}
            }
            for (t, p) in e.panics.iter().enumerate() {
                if let Some(m) = p {
                    part.inconclusive(format!("[program {}] harness worker {} panicked outside an API call: {}", pi, t, m));
                }
            }
            if ex.conflicting() {
                part.distinct.insert(fnv_mix(e.trace_hash, ex.prog.hash()));
            }
            if part.samples.len() < 2 && ex.conflicting() {
                part.sample(json!({"program_index": pi, "strategy": strat.describe(), "execution": ex.describe()}));
            }
            let findings = judge_execution(which, &ex, &rv, part, lst, ast);
            let (inc, findings): (Vec<String>, Vec<String>) = findings.into_iter().partition(|f| f.starts_with(lin::INCONCLUSIVE));
            for f in inc {
                part.inconclusive(format!("[program {} {}] {}", pi, strat.describe(), &f[lin::INCONCLUSIVE.len()..]));
            }
            for f in findings.iter().take(2) {
                part.violation(
                    format!("[program {} {} seed {}] {}", pi, strat.describe(), sseed, f),
                    replay_value(which, seed, pi, strat, sseed, &ex, f),
                );
            }
        };
        // random walk + PCT over many programs
        let mut pi = w as u64;
        while pi < n_prog {
            let prog = make_program(which, seed, pi);
            let mut rng = Rng::derive(seed ^ 0x5c4ed, pi);
            for k in 0..per_prog {
                let strat = strategy_for(&mut rng, k);
                let sseed = rng.next_u64();
                *strat_count
                    .entry(match strat {
                        Strategy::Rw => "rw",
                        Strategy::Starve { .. } => "starve",
                        _ => "pct",
                    })
                    .or_default() += 1;
                let (ex, rv) = run_one(which, &prog, strat.clone(), sseed, &mut cov);
                handle(ex, rv, pi, &strat, sseed, &mut part, &mut lst, &mut ast);
            }
            pi += nw as u64;
        }
        // complete one-preemption ("delay") sweep of a subset of the programs
        let mut pi = w as u64;
        while pi < n_sweep {
            let prog = make_program(which, seed, 1_000_000 + pi);
            // first a non-preemptive run to learn how many scheduling points each thread has
            let s0 = Strategy::Delay {
                victim: 0,
                at: u32::MAX,
                len: 0,
            };
            let (ex0, rv0) = run_one(which, &prog, s0.clone(), 0, &mut cov);
            let grants: Vec<u32> = {
                let mut g = vec![0u32; prog.threads.len()];
                if let Some(e) = &ex0.exec {
                    for (t, _, _) in &e.trace {
                        g[*t as usize] += 1;
                    }
                }
                g
            };
            handle(ex0, rv0, 1_000_000 + pi, &s0, 0, &mut part, &mut lst, &mut ast);
            *strat_count.entry("delay").or_default() += 1;
            for (t, g) in grants.iter().enumerate() {
                for k in 0..*g {
                    for len in [u32::MAX, 3] {
                        let s = Strategy::Delay {
                            victim: t,
                            at: k,
                            len,
                        };
                        let (ex, rv) = run_one(which, &prog, s.clone(), 0, &mut cov);
                        handle(ex, rv, 1_000_000 + pi, &s, 0, &mut part, &mut lst, &mut ast);
                        *strat_count.entry("delay").or_default() += 1;
                    }
                }
            }
            part.add("programs_with_complete_one_preemption_sweep", 1);
            pi += nw as u64;
        }
        part.set("executions_per_strategy", json!(strat_count));
        match which {
            Which::C03 => {
                part.add("per_order_histories_searched", lst.ids_searched);
                part.add("linearization_search_nodes", lst.nodes);
                if lst.capped > 0 {
                    for _ in 0..lst.capped {
                        part.inconclusive("per-order search exceeded its node cap".into());
                    }
                }
            }
            Which::C13 => {
                part.add("not_found_replies", ast.not_found);
                part.add("not_found_truthful", ast.truthful);
                part.add("not_found_attributed_to_K4", ast.k4);
                part.add("successful_cancels_followed_up", ast.cancels_ok);
                part.add("cancels_or_amends_overlapped_by_a_matcher", ast.overlapped_by_matcher);
            }
            _ => {}
        }
        covs.lock().unwrap().push(cov);
        part
    });
    let mut all = Cov {
        schedules: HashSet::new(),
        programs: HashSet::new(),
        sites: HashSet::new(),
        site_names: HashSet::new(),
        pairs: HashSet::new(),
        steps: 0,
        inspections: 0,
        blocked: 0,
    };
    for c in covs.into_inner().unwrap() {
        all.schedules.extend(c.schedules);
        all.programs.extend(c.programs);
        all.sites.extend(c.sites);
        all.site_names.extend(c.site_names);
        all.pairs.extend(c.pairs);
        all.steps += c.steps;
        all.blocked += c.blocked;
        all.inspections += c.inspections;
    }
    rep.set("steps", json!(all.steps));
    rep.set("workers_presumed_blocked_on_a_lock", json!(all.blocked));
    rep.set("distinct_schedules", json!(all.schedules.len()));
    rep.set("distinct_programs", json!(all.programs.len()));
    rep.set("hook_sites_reached", json!(all.sites.len()));
    let mut names: Vec<String> = all.site_names.into_iter().collect();
    names.sort();
    rep.set("hook_sites", json!(names));
    rep.set("context_switch_pairs", json!(all.pairs.len()));
    if which == Which::C12 {
        rep.set("stop_the_world_inspections", json!(all.inspections));
    }
    // E2: the same programs free-running on real cores with delay injection
    let n_e2 = budget(tier, 1_500, 150_000);
    e2_pass(which, rep, n_e2);
    // every schedule with a bounded number of preemptions of the tiny programs
    bounded_sweep(which, rep, tier.pick(2, 4), 10_000, tier.pick(5_000, 400_000));
    // the long-running exchange workload (every tier; sized by the tier)
    if which == Which::C13 {
        bystander(rep, ncpu().saturating_sub(1).clamp(2, 12), budget(tier, 150_000, 3_000_000));
    }
    // (the acknowledgement checker is quadratic in the history length: C13 keeps the short run)
    let ex_ops = if which == Which::C13 { budget(tier, 6_000, 10_000) } else { budget(tier, 6_000, 60_000) };
    // one run on a shallow book, then warmed-up books (quick: one depth chosen by the seed;
    // thorough: all of them)
    exchange(rep, which, ex_ops, 0, false);
    let deep = [40usize, 150, 700];
    match tier {
        Tier::Quick => {
            exchange(rep, which, ex_ops / 2, deep[(seed % 3) as usize], false);
            exchange(rep, which, ex_ops / 2, deep[((seed / 3 + 1) % 3) as usize], true);
        }
        Tier::Thorough => {
            for d in deep {
                exchange(rep, which, ex_ops, d, false);
                exchange(rep, which, ex_ops, d, true);
            }
        }
    }
    if tier == Tier::Thorough && which == Which::C03 && std::env::var("PLV_NO_MIRI").is_err() {
        crate::miri::sweep(rep, "level", seed, 4, budget(tier, 0, 160), "0.05");
    }
    rep.rule = format!(
        "E1: seeded random programs (2-4 threads x 1-4 add / match / cancel / quantity-amend / read operations on a level pre-loaded with 1-4 orders, ids drawn from a tiny pool) executed by real threads under the baton scheduler: one shared-memory operation per step, strategies rw / PCT(d=1..3) / complete one-preemption delay sweep; {}; E2: the same programs free-running with delay injection. non-trivial = execution in which two threads touched the same order id with at least one mutator in overlapping calls; distinct = distinct (program, schedule) pairs (hash of the (thread, operation, call site) sequence)",
        match which {
            Which::C03 => "oracle: aggregates = sums at quiescence + per-order linearization of all successful operations against the statement's per-order machine",
            Which::C08 => "oracle: a draining match after quiescence must execute exactly what each listed order can still trade, leave nothing displayed, and leave consistent aggregates",
            Which::C12 => "oracle: after EVERY step the scheduler reads the three aggregates with the world stopped and compares them with what has been submitted by calls that have started",
            Which::C13 => "oracle: interval reasoning on the client log; a not-found on an order that rested and was not removed is attributed to K4 only if the lookup miss lies inside another thread's hold interval (hook event log), else it is a violation; a successful cancel must never be followed by activity on that order",
            Which::C15 => "oracle: statistics at quiescence = counters derived from the operations issued and results returned by all threads",
        }
    );
    rep.assumptions.push("sequentially consistent memory at the granularity of hooked operations (E1); hardware TSO effects only through E2".into());
    rep.assumptions.push("concurrent programs never add an id twice".into());
}

fn e2_pass(which: Which, rep: &mut Report, n: u64) {
    let seed = rep.seed;
    let tier = rep.tier;
    let prop = which.id();
    // each program already runs 2-4 threads (+ pollers): a few programs in parallel fill the cores
    let nw = (ncpu() / 3).max(1);
    parallel(nw, rep, |w| {
        let mut part = Report::new(prop, tier, seed, "exploration");
        let mut lst = LinStats {
            ids_searched: 0,
            nodes: 0,
            capped: 0,
        };
        let mut i = w as u64;
        let mut polled_total = 0u64;
        while i < n {
            let prog = make_program(which, seed ^ 0xe2, i);
            let mut polled = Vec::new();
            let pollers = if which == Which::C12 { 2 } else { 0 };
            conc::E2_WANT_EVENTS.with(|c| c.set(which == Which::C13));
            let ex = conc::run_e2(&prog, seed ^ i, 96, pollers, &mut polled);
            conc::E2_WANT_EVENTS.with(|c| c.set(false));
            part.add("e2_executions", 1);
            let mut findings: Vec<String> = Vec::new();
            match which {
                Which::C03 => {
                    findings.extend(lin::quiescent_basics(&ex));
                    findings.extend(lin::per_order_linearizable(&ex, &mut lst));
                }
                Which::C08 => {
                    if let Err(e) = crate::mon::obs_consistent(&ex.final_obs) {
                        findings.push(format!("at quiescence: {}", e));
                    }
                    findings.extend(lin::drain_check(&ex));
                }
                Which::C12 => {
                    use std::sync::atomic::Ordering::SeqCst;
                    let (bt, bh, ba) = (ex.bounds.total.load(SeqCst), ex.bounds.hidden.load(SeqCst), ex.bounds.adds.load(SeqCst));
                    polled_total += polled.len() as u64;
                    for (v, h, c) in &polled {
                        if *v > bt || *h > bh || *c > ba {
                            findings.push(format!(
                                "a polling reader saw visible={} hidden={} count={} while the whole program submits only total={} hidden={} orders={}",
                                v, h, c, bt, bh, ba
                            ));
                            break;
                        }
                    }
                    for r in &ex.log {
                        if let CRes::ReadAgg(v, h, c, _) = &r.res {
                            if matches!(r.op, COp::Read(0) | COp::Read(1)) && (*v > bt || *h > bh || *c > ba) {
                                findings.push(format!("T{}.{} read visible={} hidden={} count={} beyond what was submitted", r.thread, r.idx, v, h, c));
                            }
                        }
                    }
                }
                Which::C13 => {
                    // without the hook event log the attribution is conservative: a not-found is
                    // a violation only if no call that could hold the order overlaps it at all
                    let mut st = AckStats::default();
                    let (v, k4) = lin::ack_truthful(&ex, &mut st);
                    findings.extend(v);
                    if k4 > 0 {
                        part.known(lin::SIG_K4, k4);
                    }
                    part.add("e2_not_found_replies", st.not_found);
            {
                let mut lst = LinStats { ids_searched: 0, nodes: 0, capped: 0 };
                for f in lin::cancelled_orders_linearizable(&ex, &mut lst) {
                    findings.push(format!("acknowledged cancel does not fit the order's history: {}", f));
                }
                part.add("cancelled_order_histories_searched", lst.ids_searched);
            }
                }
                Which::C15 => findings.extend(lin::stats_vs_events(&ex)),
            }
            if ex.incomplete {
                part.inconclusive(format!("[E2 program {}] a call exceeded its step budget; execution not judged", i));
                i += nw as u64;
                continue;
            }
            if ex.conflicting() {
                // distinct = (program, outcome): free-running schedules are not observable
                let mut h = ex.prog.hash();
                for l in ex.describe().iter().skip(1 + ex.prog.threads.len()) {
                    let body = l.splitn(2, "] ").nth(1).unwrap_or(l);
                    h = fnv_mix(h, crate::rng::fnv(body.as_bytes()));
                }
                part.distinct.insert(h);
                part.add("e2_conflicting_executions", 1);
            }
            let (inc, findings): (Vec<String>, Vec<String>) = findings.into_iter().partition(|f| f.starts_with(lin::INCONCLUSIVE));
            for f in inc {
                part.inconclusive(format!("[E2 program {}] {}", i, &f[lin::INCONCLUSIVE.len()..]));
            }
            if !findings.is_empty() {
                part.add("e2_executions_with_a_violation", 1);
            }
            for f in findings.iter().take(2) {
                part.violation(
                    format!("[E2 program {}] {}", i, f),
                    json!({"engine": "e2", "property": prop, "seed": seed, "program_index": i, "finding": f, "execution": ex.describe()}),
                );
            }
            i += nw as u64;
        }
        if which == Which::C12 {
            part.add("e2_polled_readings", polled_total);
        }
        if which == Which::C03 {
            part.add("e2_per_order_histories_searched", lst.ids_searched);
        }
        part
    });
}

pub fn replay_e1(r: &Value) -> i32 {
    let which = match r["property"].as_str().unwrap_or("") {
        "C03" => Which::C03,
        "C08" => Which::C08,
        "C12" => Which::C12,
        "C13" => Which::C13,
        "C15" => Which::C15,
        _ => return 3,
    };
    let seed = r["seed"].as_u64().unwrap_or(1);
    let pi = r["program_index"].as_u64().unwrap_or(0);
    let strat = parse_strategy(r["strategy"].as_str().unwrap_or("rw"));
    let sseed = r["sched_seed"].as_u64().unwrap_or(0);
    let prog = if r["engine"].as_str() == Some("e1-bounded") {
        let mut pool = tiny_programs();
        pool.extend(small_programs());
        let idx = r["tiny_program_index"].as_u64().unwrap_or(0) as usize;
        match pool.get(idx) {
            Some(p) => p.clone(),
            None => return 3,
        }
    } else {
        make_program(which, seed, pi)
    };
    let mut cov = Cov {
        schedules: HashSet::new(),
        programs: HashSet::new(),
        sites: HashSet::new(),
        site_names: HashSet::new(),
        pairs: HashSet::new(),
        steps: 0,
        inspections: 0,
        blocked: 0,
    };
    let (ex, rv) = run_one(which, &prog, strat, sseed, &mut cov);
    for l in ex.describe() {
        println!("  {}", l);
    }
    let mut part = Report::new(which.id(), Tier::Quick, seed, "exploration");
    let mut lst = LinStats {
        ids_searched: 0,
        nodes: 0,
        capped: 0,
    };
    let mut ast = AckStats::default();
    let f = judge_execution(which, &ex, &rv, &mut part, &mut lst, &mut ast);
    for (k, n) in &part.known {
        println!("replay: known finding {} x{}", k, n);
    }
    if f.is_empty() {
        println!("replay: no violation on this execution");
        0
    } else {
        for x in f {
            println!("replay: {}", x);
        }
        1
    }
}

// ---------------------------------------------------------------------------------------------
// C08 second half: the exported queue under concurrent push / pop / remove / find
// ---------------------------------------------------------------------------------------------

#[derive(Clone, Debug)]
enum QOp {
    Push(model::Order),
    Pop,
    Remove(pricelevel::OrderId),
    Find(pricelevel::OrderId),
    PopRepush,
}

#[derive(Clone, Debug)]
struct QRec {
    thread: usize,
    op: QOp,
    call: u64,
    ret: u64,
    got: Option<model::Order>,
}

fn gen_qprog(rng: &mut Rng) -> (Vec<model::Order>, Vec<Vec<QOp>>) {
    let mut next = 1u64;
    let mut mk = |rng: &mut Rng| {
        let o = model::mk(
            model::Kind::Standard,
            model::oid(next),
            10,
            rng.range(1, 9),
            0,
            pricelevel::Side::Buy,
            next,
            pricelevel::TimeInForce::Gtc,
            &model::Params::default(),
        );
        next += 1;
        o
    };
    let pre: Vec<model::Order> = (0..rng.range(0, 3)).map(|_| mk(rng)).collect();
    let nthr = rng.range(2, 4) as usize;
    let mut plan: Vec<Vec<u8>> = Vec::new();
    for _ in 0..nthr {
        let n = rng.range(1, 4) as usize;
        plan.push((0..n).map(|_| rng.weighted(&[30, 30, 15, 10, 15]) as u8).collect());
    }
    let mut pool: Vec<pricelevel::OrderId> = pre.iter().map(model::id_of).collect();
    let mut pushes: Vec<Vec<Option<model::Order>>> = Vec::new();
    for t in &plan {
        let mut v = Vec::new();
        for k in t {
            if *k == 0 {
                let o = mk(rng);
                pool.push(model::id_of(&o));
                v.push(Some(o));
            } else {
                v.push(None);
            }
        }
        pushes.push(v);
    }
    let mut threads = Vec::new();
    for (ti, t) in plan.iter().enumerate() {
        let mut ops = Vec::new();
        for (oi, k) in t.iter().enumerate() {
            let target = if pool.is_empty() { model::oid(77) } else { *rng.pick(&pool) };
            ops.push(match k {
                0 => QOp::Push(pushes[ti][oi].unwrap()),
                1 => QOp::Pop,
                2 => QOp::Remove(target),
                3 => QOp::Find(target),
                _ => QOp::PopRepush,
            });
        }
        threads.push(ops);
    }
    (pre, threads)
}

fn qprog_desc(pre: &[model::Order], threads: &[Vec<QOp>]) -> Vec<String> {
    let d = |o: &QOp| match o {
        QOp::Push(x) => format!("push {}", model::short(x)),
        QOp::Pop => "pop".into(),
        QOp::Remove(i) => format!("remove {:x}", model::key(i) >> 64),
        QOp::Find(i) => format!("find {:x}", model::key(i) >> 64),
        QOp::PopRepush => "pop+re-push".into(),
    };
    let mut v = vec![format!("preload [{}]", pre.iter().map(model::short).collect::<Vec<_>>().join(", "))];
    for (i, t) in threads.iter().enumerate() {
        v.push(format!("T{}: {}", i, t.iter().map(d).collect::<Vec<_>>().join("; ")));
    }
    v
}

/// exactly-once ledger over the recorded queue history
fn queue_ledger(pre: &[model::Order], log: &[QRec], drained: &[model::Order], left_listed: usize) -> Vec<String> {
    let mut out = Vec::new();
    let mut pushed: HashMap<u128, i64> = HashMap::new();
    let mut handed: HashMap<u128, i64> = HashMap::new();
    let mut push_call: HashMap<u128, u64> = HashMap::new();
    for o in pre {
        *pushed.entry(model::key(&model::id_of(o))).or_default() += 1;
        push_call.insert(model::key(&model::id_of(o)), 0);
    }
    // first all pushes (the log is not necessarily in real-time order)
    for r in log {
        if let QOp::Push(o) = &r.op {
            let k = model::key(&model::id_of(o));
            *pushed.entry(k).or_default() += 1;
            let e = push_call.entry(k).or_insert(r.call);
            *e = (*e).min(r.call);
        }
    }
    for r in log {
        match &r.op {
            QOp::Push(_) => {}
            QOp::Pop | QOp::Remove(_) => {
                if let Some(g) = &r.got {
                    *handed.entry(model::key(&model::id_of(g))).or_default() += 1;
                }
            }
            QOp::PopRepush => {
                // handed out and handed back: net zero, but it must have been a pushed order
                if let Some(g) = &r.got {
                    if !pushed.contains_key(&model::key(&model::id_of(g))) {
                        out.push(format!("pop returned {} which was never pushed", model::short(g)));
                    }
                }
            }
            QOp::Find(_) => {}
        }
    }
    for g in drained {
        *handed.entry(model::key(&model::id_of(g))).or_default() += 1;
    }
    for (k, n) in &pushed {
        let h = handed.get(k).copied().unwrap_or(0);
        if h > *n {
            out.push(format!("order {:x} was handed out {} times but pushed {} times (duplicated)", k >> 64, h, n));
        }
        if h < *n {
            out.push(format!(
                "order {:x} was pushed {} times but handed out only {} times after a final pop-until-empty (stranded)",
                k >> 64,
                n,
                h
            ));
        }
    }
    for (k, h) in &handed {
        if !pushed.contains_key(k) {
            out.push(format!("order {:x} was handed out {} times but never pushed", k >> 64, h));
        }
    }
    if left_listed > 0 {
        out.push(format!("after pop-until-empty the queue still lists {} orders", left_listed));
    }
    // find: Some(o) only for an order whose push had begun; None only if the order could be absent
    for r in log {
        if let QOp::Find(id) = &r.op {
            let k = model::key(id);
            match &r.got {
                Some(g) => {
                    if model::key(&model::id_of(g)) != k {
                        out.push("find returned an order with another id".into());
                    }
                    match push_call.get(&k) {
                        Some(pc) if *pc < r.ret => {}
                        _ => out.push(format!("find returned {:x} before any push of it had begun", k >> 64)),
                    }
                }
                None => {
                    // wrong only if a push of it had returned before the find began and nobody
                    // (pop / remove / pop+re-push) could have taken it before the find returned
                    let pushed_before = pre.iter().any(|o| model::key(&model::id_of(o)) == k)
                        || log.iter().any(|q| matches!(&q.op, QOp::Push(o) if model::key(&model::id_of(o)) == k) && q.ret < r.call);
                    let taken = log.iter().any(|q| {
                        q.call < r.ret
                            && match (&q.op, &q.got) {
                                (QOp::Pop, Some(g)) | (QOp::Remove(_), Some(g)) | (QOp::PopRepush, Some(g)) => model::key(&model::id_of(g)) == k,
                                _ => false,
                            }
                    });
                    if pushed_before && !taken {
                        out.push(format!("find({:x}) returned None although the order was queued for the whole call", k >> 64));
                    }
                }
            }
        }
    }
    out
}

pub fn run_queue_e1(rep: &mut Report, n_prog: u64, per_prog: u64) {
    let seed = rep.seed;
    let tier = rep.tier;
    let nw = ncpu();
    parallel(nw, rep, |w| {
        let mut part = Report::new("C08", tier, seed, "exploration");
        let mut schedules: HashSet<u64> = HashSet::new();
        let mut pi = w as u64;
        while pi < n_prog {
            let mut rng = Rng::derive(seed ^ 0x0c08, pi);
            let (pre, threads) = gen_qprog(&mut rng);
            for k in 0..per_prog {
                let strat = strategy_for(&mut rng, k);
                let sseed = rng.next_u64();
                crate::hook::install();
                let q = Arc::new(OrderQueue::new());
                for o in &pre {
                    q.push(Arc::new(*o));
                }
                let log: Arc<Mutex<Vec<QRec>>> = Arc::new(Mutex::new(Vec::new()));
                let mut bodies: Vec<Body> = Vec::new();
                for (ti, ops) in threads.iter().enumerate() {
                    let q = q.clone();
                    let log = log.clone();
                    let ops = ops.clone();
                    bodies.push(Box::new(move |wk: &Worker| {
                        for op in ops.iter() {
                            let call = wk.stamp();
                            let got = match op {
                                QOp::Push(o) => {
                                    q.push(Arc::new(*o));
                                    None
                                }
                                QOp::Pop => q.pop().map(|a| *a),
                                QOp::Remove(id) => q.remove(*id).map(|a| *a),
                                QOp::Find(id) => q.find(*id).map(|a| *a),
                                QOp::PopRepush => {
                                    let g = q.pop();
                                    if let Some(a) = &g {
                                        q.push(a.clone());
                                    }
                                    g.map(|a| *a)
                                }
                            };
                            let ret = wk.stamp();
                            log.lock().unwrap().push(QRec {
                                thread: ti,
                                op: op.clone(),
                                call,
                                ret,
                                got,
                            });
                        }
                    }));
                }
                let exec = sched::run_exec(bodies, strat.clone(), sseed, STEP_BUDGET, false, &mut |_| {});
                part.evaluations += 1;
                part.add("queue_executions", 1);
                part.add("queue_steps", exec.steps);
                if exec.verdict != Verdict::Completed {
                    part.inconclusive(format!("[queue program {}] {:?}", pi, exec.verdict));
                    continue;
                }
                let h = fnv_mix(exec.trace_hash, pi);
                schedules.insert(h);
                // quiescent: final pop-until-empty
                let mut drained = Vec::new();
                while let Some(a) = q.pop() {
                    drained.push(*a);
                    if drained.len() > 100 {
                        break;
                    }
                }
                let left = q.to_vec().len() + if q.is_empty() { 0 } else { 1 } * 0;
                let log = std::mem::take(&mut *log.lock().unwrap());
                let findings = queue_ledger(&pre, &log, &drained, left);
                let contended = log.iter().any(|a| {
                    log.iter().any(|b| a.thread != b.thread && a.call < b.ret && b.call < a.ret)
                });
                if contended {
                    part.distinct.insert(h);
                }
                for f in findings.iter().take(2) {
                    let mut l2 = log.clone();
                    l2.sort_by_key(|r| r.call);
                    part.violation(
                        format!("[queue program {} {}] {}", pi, strat.describe(), f),
                        json!({"engine": "e1-queue", "property": "C08", "seed": seed, "program_index": pi, "strategy": strat.describe(), "sched_seed": sseed,
                               "program": qprog_desc(&pre, &threads),
                               "history": l2.iter().map(|r| format!("[{}..{}] T{} {:?} -> {:?}", r.call, r.ret, r.thread, r.op, r.got.map(|o| model::short(&o)))).collect::<Vec<_>>(),
                               "finding": f}),
                    );
                }
            }
            pi += nw as u64;
        }
        part.add("queue_distinct_schedules", schedules.len() as u64);
        part
    });
}

/// E2 on the bare queue: threads hammer one OrderQueue with unique orders, delay injection on
pub fn run_queue_e2(rep: &mut Report, threads: usize, ops_per_thread: u64) {
    crate::hook::install();
    let seed = rep.seed;
    let q = Arc::new(OrderQueue::new());
    let results: Vec<(u64, Vec<u128>, Vec<u128>)> = std::thread::scope(|s| {
        let hs: Vec<_> = (0..threads)
            .map(|t| {
                let q = q.clone();
                s.spawn(move || {
                    crate::hook::delay_begin(seed ^ (t as u64) << 8, 24);
                    crate::hook::count_reset(u64::MAX); // bounded by its operation count
                    let mut rng = Rng::derive(seed ^ 0xe2c08, t as u64);
                    let mut pushed = 0u64;
                    let mut mine: Vec<u128> = Vec::new();
                    let mut got: Vec<u128> = Vec::new();
                    for i in 0..ops_per_thread {
                        match rng.below(10) {
                            0..=4 => {
                                let idn = 1 + (t as u64) * 100_000_000 + i;
                                let o = model::mk(model::Kind::Standard, model::oid(idn), 10, 1 + i % 7, 0, pricelevel::Side::Buy, i, pricelevel::TimeInForce::Gtc, &model::Params::default());
                                mine.push(model::key(&model::id_of(&o)));
                                q.push(Arc::new(o));
                                pushed += 1;
                            }
                            5..=7 => {
                                if let Some(a) = q.pop() {
                                    got.push(model::key(&model::id_of(&a)));
                                }
                            }
                            8 => {
                                if !mine.is_empty() {
                                    let k = mine[rng.usize_below(mine.len())];
                                    let id = if (k as u64) >> 48 == 0x5eed {
                                        pricelevel::OrderId::from_ulid(ulid::Ulid::from(k))
                                    } else {
                                        pricelevel::OrderId::from_uuid(Uuid::from_u128(k))
                                    };
                                    if let Some(a) = q.remove(id) {
                                        got.push(model::key(&model::id_of(&a)));
                                    }
                                }
                            }
                            _ => {
                                if let Some(a) = q.pop() {
                                    q.push(a);
                                }
                            }
                        }
                    }
                    crate::hook::set_mode(crate::hook::Mode::Off);
                    (pushed, mine, got)
                })
            })
            .collect();
        hs.into_iter().map(|h| h.join().expect("queue stress thread")).collect()
    });
    let mut all_pushed: HashSet<u128> = HashSet::new();
    let mut handed: HashMap<u128, u32> = HashMap::new();
    let mut total_ops = 0u64;
    for (p, mine, got) in &results {
        total_ops += *p;
        all_pushed.extend(mine.iter().copied());
        for g in got {
            *handed.entry(*g).or_default() += 1;
        }
    }
    let mut drained = 0u64;
    while let Some(a) = q.pop() {
        *handed.entry(model::key(&model::id_of(&a))).or_default() += 1;
        drained += 1;
    }
    let mut dup = 0u64;
    let mut lost = 0u64;
    let mut first_bad: Option<String> = None;
    for k in &all_pushed {
        match handed.get(k).copied().unwrap_or(0) {
            1 => {}
            0 => {
                lost += 1;
                first_bad.get_or_insert(format!("order {:x} pushed but never handed out (stranded)", k >> 64));
            }
            n => {
                dup += 1;
                first_bad.get_or_insert(format!("order {:x} handed out {} times", k >> 64, n));
            }
        }
    }
    for k in handed.keys() {
        if !all_pushed.contains(k) {
            first_bad.get_or_insert(format!("order {:x} handed out but never pushed", k >> 64));
            dup += 1;
        }
    }
    let left = q.len();
    rep.add("e2_queue_orders_pushed", total_ops);
    rep.add("e2_queue_orders_drained_at_end", drained);
    rep.add("e2_queue_threads", threads as u64);
    if dup + lost > 0 || left > 0 {
        rep.violation(
            format!(
                "E2 queue stress: {} duplicated, {} stranded, {} still in the map after pop-until-empty; first: {}",
                dup,
                lost,
                left,
                first_bad.unwrap_or_default()
            ),
            json!({"engine": "e2-queue", "property": "C08", "seed": seed, "duplicated": dup, "stranded": lost}),
        );
    }
}

pub fn run_c08(tier: Tier, seed: u64) -> i32 {
    let mut rep = Report::new("C08", tier, seed, "exploration");
    level_into(Which::C08, &mut rep);
    let lvl_eval = rep.evaluations;
    run_queue_e1(&mut rep, budget(tier, 2_500, 60_000), budget(tier, 8, 24));
    bounded_queue_sweep(&mut rep, tier.pick(3, 5), tier.pick(20_000, 400_000));
    run_queue_e2(&mut rep, ncpu().min(16), budget(tier, 40_000, 1_000_000));
    if tier == Tier::Thorough && std::env::var("PLV_NO_MIRI").is_err() {
        crate::miri::sweep(&mut rep, "queue", seed ^ 0x808, 4, budget(tier, 0, 160), "0.05");
    }
    if tier == Tier::Thorough && std::env::var("PLV_NO_TSAN").is_err() {
        crate::tsan::run(&mut rep);
    }
    rep.set("level_program_executions", json!(lvl_eval));
    rep.rule = format!("{} | queue family: seeded programs of 2-4 threads x 1-4 push / pop / remove / find / pop-then-re-push calls on the exported OrderQueue under the same scheduler; oracle: exactly-once ledger over unique orders after a final pop-until-empty (never handed out twice, never stranded), find consistent with the intervals; plus an E2 hammer of the queue by up to 16 free-running threads", rep.rule);
    rep.finish()
}

// ---------------------------------------------------------------------------------------------
// C14
// ---------------------------------------------------------------------------------------------

pub fn run_c14(tier: Tier, seed: u64) -> i32 {
    let mut rep = Report::new("C14", tier, seed, "exploration");
    let n_prog = budget(tier, 3_000, 80_000);
    let nw = ncpu();
    parallel(nw, &mut rep, |w| {
        let mut part = Report::new("C14", tier, seed, "exploration");
        let mut schedules: HashSet<u64> = HashSet::new();
        let mut pi = w as u64;
        while pi < n_prog {
            let mut rng = Rng::derive(seed ^ 0xc14, pi);
            let ns = match pi % 5 {
                0 => Uuid::nil(),
                1 => Uuid::max(),
                _ => Uuid::from_u128(rng.next_u64() as u128 | ((rng.next_u64() as u128) << 64)),
            };
            let k = rng.range(2, 4) as usize;
            let n = rng.range(1, 6) as usize;
            crate::hook::install();
            // the generator is created by whichever worker gets there first, so the creating
            // thread is one of the contenders (every other program: created by the harness thread)
            let by_worker = pi % 2 == 0;
            let cell: Arc<std::sync::OnceLock<UuidGenerator>> = Arc::new(std::sync::OnceLock::new());
            if !by_worker {
                let _ = cell.set(UuidGenerator::new(ns));
            }
            let got: Arc<Mutex<Vec<(usize, Uuid)>>> = Arc::new(Mutex::new(Vec::new()));
            let mut bodies: Vec<Body> = Vec::new();
            for t in 0..k {
                let cell = cell.clone();
                let got = got.clone();
                bodies.push(Box::new(move |_wk: &Worker| {
                    let g = cell.get_or_init(|| UuidGenerator::new(ns));
                    for _ in 0..n {
                        let id = g.next();
                        got.lock().unwrap().push((t, id));
                    }
                }));
            }
            let strat = if pi % 4 == 3 {
                Strategy::Starve {
                    victim: rng.usize_below(k),
                    burst: 1 + rng.below(3) as u32,
                }
            } else {
                strategy_for(&mut rng, pi)
            };
            let sseed = rng.next_u64();
            let exec = sched::run_exec(bodies, strat.clone(), sseed, 5_000, false, &mut |_| {});
            part.evaluations += 1;
            part.add("steps", exec.steps);
            if exec.verdict != Verdict::Completed {
                part.inconclusive(format!("[generator program {}] {:?}", pi, exec.verdict));
                pi += nw as u64;
                continue;
            }
            let ids: Vec<Uuid> = got.lock().unwrap().iter().map(|x| x.1).collect();
            let set: HashSet<Uuid> = ids.iter().copied().collect();
            part.add("ids_drawn", ids.len() as u64);
            schedules.insert(fnv_mix(exec.trace_hash, (k * 10 + n) as u64));
            part.distinct.insert(fnv_mix(exec.trace_hash, (k * 10 + n) as u64));
            let mut findings = Vec::new();
            if set.len() != ids.len() {
                findings.push(format!("{} calls returned only {} distinct ids", ids.len(), set.len()));
            }
            // a second generator with the same namespace, called sequentially as often
            let g2 = UuidGenerator::new(ns);
            let seq: Vec<Uuid> = (0..ids.len()).map(|_| g2.next()).collect();
            let seqset: HashSet<Uuid> = seq.iter().copied().collect();
            if seqset != set {
                findings.push("a second generator with the same namespace, called the same number of times, issued a different set of ids".into());
            }
            // one thread alone: the same sequence
            let g3 = UuidGenerator::new(ns);
            let seq3: Vec<Uuid> = (0..ids.len()).map(|_| g3.next()).collect();
            if seq3 != seq {
                findings.push("two generators with the same namespace, each called by one thread, issued different sequences".into());
            }
            if pi < 2 {
                part.sample(json!({"namespace": ns.to_string(), "threads": k, "calls_per_thread": n, "strategy": strat.describe(), "ids": ids.iter().map(|i| i.to_string()).collect::<Vec<_>>()}));
            }
            for f in findings {
                part.violation(
                    format!("[generator program {} ns={} {}x{} {}] {}", pi, ns, k, n, strat.describe(), f),
                    json!({"engine": "e1-idgen", "property": "C14", "seed": seed, "program_index": pi, "namespace": ns.to_string(), "threads": k, "calls": n, "strategy": strat.describe(), "sched_seed": sseed,
                           "schedule": exec.trace.iter().map(|(t, op, line)| format!("T{}:{:?}@{}", t, op, line)).collect::<Vec<_>>(), "finding": f}),
                );
            }
            pi += nw as u64;
        }
        part.add("distinct_schedules", schedules.len() as u64);
        part
    });
    // E2: many threads, many calls, delay injection
    {
        crate::hook::install();
        let threads = ncpu().min(16);
        let calls = budget(tier, 60_000, 1_000_000);
        let ns = Uuid::from_u128(seed as u128 * 0x9E37_79B9_7F4A_7C15);
        let cell: Arc<std::sync::OnceLock<UuidGenerator>> = Arc::new(std::sync::OnceLock::new());
        let all: Vec<Vec<Uuid>> = std::thread::scope(|s| {
            let hs: Vec<_> = (0..threads)
                .map(|t| {
                    let cell = cell.clone();
                    s.spawn(move || {
                        // created by whichever of the contending threads arrives first
                        let g = cell.get_or_init(|| UuidGenerator::new(ns));
                        crate::hook::delay_begin(seed ^ t as u64, 8);
                        crate::hook::count_reset(u64::MAX); // bounded by its call count
                        let v: Vec<Uuid> = (0..calls).map(|_| g.next()).collect();
                        crate::hook::set_mode(crate::hook::Mode::Off);
                        v
                    })
                })
                .collect();
            hs.into_iter().map(|h| h.join().expect("idgen thread")).collect()
        });
        let total: usize = all.iter().map(|v| v.len()).sum();
        let set: HashSet<Uuid> = all.iter().flatten().copied().collect();
        rep.add("e2_ids_drawn", total as u64);
        rep.add("e2_threads", threads as u64);
        if set.len() != total {
            rep.violation(
                format!("E2: {} threads x {} calls returned only {} distinct ids", threads, calls, set.len()),
                json!({"engine": "e2-idgen", "property": "C14", "seed": seed, "threads": threads, "calls": calls, "distinct": set.len()}),
            );
        }
        let g2 = UuidGenerator::new(ns);
        let mut missing = 0u64;
        for _ in 0..total {
            if !set.contains(&g2.next()) {
                missing += 1;
            }
        }
        if missing > 0 {
            rep.violation(
                format!("E2: a sequential replay of {} calls produced {} ids the concurrent run did not", total, missing),
                json!({"engine": "e2-idgen", "property": "C14", "seed": seed, "missing": missing}),
            );
        }
    }
    // generators restored from their serialized form with the counter at boundary values: the
    // ids that follow must be distinct, and two equally restored generators must agree
    {
        let mut rng = Rng::derive(seed ^ 0x14b, 0);
        let starts: Vec<u64> = vec![
            0, 9, 99, 999_999, (1 << 32) - 2, (1 << 53) - 2, 999_999_999_999_999_7, 9_999_999_999_999_996, 10_000_000_000_000_000,
            99_999_999_999_999_990, (1 << 63) - 3, 9_999_999_999_999_999_990, u64::MAX - 40,
        ];
        // one namespace, every decimal boundary of the counter: the ids issued around 10^k must
        // all be distinct from each other and from the ids of the first calls
        {
            let ns = Uuid::from_u128(0x00c1_4000_0000_0000_0000_0000_0000_0001u128 ^ seed as u128);
            let mut all: HashMap<Uuid, u64> = HashMap::new();
            let mut ranges: Vec<u64> = vec![0];
            let mut p10: u64 = 10;
            for _ in 1..=19 {
                ranges.push(p10.saturating_sub(12));
                p10 = p10.saturating_mul(10);
            }
            for k in [16u32, 32, 53, 63] {
                ranges.push((1u64 << k) - 12);
            }
            for st in ranges {
                let js = format!("{{\"namespace\":\"{}\",\"counter\":{}}}", ns, st);
                if let Ok(g) = serde_json::from_str::<UuidGenerator>(&js) {
                    for j in 0..24u64 {
                        let id = g.next();
                        rep.evaluations += 1;
                        if let Some(prev) = all.insert(id, st + j) {
                            if prev != st + j {
                                rep.violation(
                                    format!("calls number {} and {} on generators with the same namespace returned the same id {}", prev, st + j, id),
                                    json!({"engine": "idgen-restored", "property": "C14", "namespace": ns.to_string(), "call_a": prev, "call_b": st + j, "id": id.to_string()}),
                                );
                            }
                        }
                    }
                }
            }
            rep.add("ids_compared_across_counter_ranges", all.len() as u64);
        }
        let mut restored = 0u64;
        for st in starts {
            for _ in 0..3 {
                let ns = Uuid::from_u128(rng.next_u64() as u128 | ((rng.next_u64() as u128) << 64));
                let js = format!("{{\"namespace\":\"{}\",\"counter\":{}}}", ns, st);
                let (a, b) = match (serde_json::from_str::<UuidGenerator>(&js), serde_json::from_str::<UuidGenerator>(&js)) {
                    (Ok(a), Ok(b)) => (a, b),
                    _ => {
                        rep.inconclusive(format!("a generator could not be restored from {}", js));
                        continue;
                    }
                };
                restored += 1;
                let ia: Vec<Uuid> = (0..24).map(|_| a.next()).collect();
                let ib: Vec<Uuid> = (0..24).map(|_| b.next()).collect();
                let set: HashSet<Uuid> = ia.iter().copied().collect();
                rep.evaluations += 1;
                if set.len() != ia.len() {
                    rep.violation(
                        format!("a generator restored with counter {} issued only {} distinct ids in 24 calls", st, set.len()),
                        json!({"engine": "idgen-restored", "property": "C14", "state": js, "ids": ia.iter().map(|i| i.to_string()).collect::<Vec<_>>()}),
                    );
                }
                if ia != ib {
                    rep.violation(
                        format!("two generators restored from the same state (counter {}) issued different ids", st),
                        json!({"engine": "idgen-restored", "property": "C14", "state": js}),
                    );
                }
            }
        }
        rep.add("restored_generators_checked", restored);
    }
    if tier == Tier::Thorough && std::env::var("PLV_NO_MIRI").is_err() {
        crate::miri::sweep(&mut rep, "id generator", seed ^ 0x1414, 4, budget(tier, 0, 64), "0.05");
    }
    rep.rule = "E1: 2-4 threads x 1-5 next() calls on one generator under the baton scheduler (the counter is a hooked atomic, so a split read-modify-write would get a scheduling point between its halves), namespaces nil / max / random; oracle: all ids distinct, equal as a set to a sequential generator with the same namespace, and two single-threaded generators agree on the sequence. E2: up to 16 free-running threads with delay injection. non-trivial = every execution (>= 2 threads contending on the counter); distinct = distinct (shape, schedule) pairs".into();
    rep.finish()
}

// ---------------------------------------------------------------------------------------------
// `mini` mode: a handful of small programs, free-running, all history checkers compiled in.
// This is what runs under Miri (cargo +nightly miri run -- mini <seed> <n>): Miri supplies the
// interleavings (basic-block preemption, weak-memory emulation) and the UB / data-race detection.
// ---------------------------------------------------------------------------------------------

pub fn mini(seed: u64, n: u64) -> i32 {
    let mut bad: Vec<String> = Vec::new();
    let mut outcome = crate::rng::fnv(b"mini");
    let mut ops = 0u64;
    for i in 0..n {
        let mut rng = Rng::derive(seed ^ 0x3141, i);
        // level program
        let mut cfg = ProgCfg::base();
        cfg.threads = (2, 3);
        cfg.ops = (1, 3);
        cfg.preload = (1, 3);
        let prog = conc::gen_program(&mut rng, &cfg);
        let mut polled = Vec::new();
        let ex = conc::run_e2(&prog, seed ^ i, 0, 0, &mut polled);
        ops += ex.log.len() as u64;
        let mut lst = LinStats {
            ids_searched: 0,
            nodes: 0,
            capped: 0,
        };
        let mut f = lin::quiescent_basics(&ex);
        f.extend(lin::per_order_linearizable(&ex, &mut lst));
        f.extend(lin::stats_vs_events(&ex));
        for l in ex.describe().iter().skip(1 + prog.threads.len()) {
            // results only (drop the "[call..ret]" clock values: they differ between equal outcomes)
            let body = l.splitn(2, "] ").nth(1).unwrap_or(l);
            outcome = fnv_mix(outcome, crate::rng::fnv(body.as_bytes()));
        }
        f.extend(lin::drain_check(&ex));
        if ex.incomplete {
            println!("MINI-INCONCLUSIVE level program {}: a call exceeded its step budget", i);
            f.clear();
        }
        for x in f {
            if x.starts_with(lin::INCONCLUSIVE) {
                println!("MINI-INCONCLUSIVE level program {}: {}", i, x);
                continue;
            }
            bad.push(format!("level program {}: {} || {}", i, x, ex.describe().join(" / ")));
        }
        // queue program, free-running
        let (pre, threads) = gen_qprog(&mut rng);
        let q = Arc::new(OrderQueue::new());
        for o in &pre {
            q.push(Arc::new(*o));
        }
        let logs: Vec<Vec<QRec>> = std::thread::scope(|s| {
            let hs: Vec<_> = threads
                .iter()
                .enumerate()
                .map(|(ti, ops)| {
                    let q = q.clone();
                    let ops = ops.clone();
                    s.spawn(move || {
                        let mut log = Vec::new();
                        for op in ops.iter() {
                            let call = conc::E2_CLOCK.fetch_add(1, std::sync::atomic::Ordering::SeqCst);
                            let got = match op {
                                QOp::Push(o) => {
                                    q.push(Arc::new(*o));
                                    None
                                }
                                QOp::Pop => q.pop().map(|a| *a),
                                QOp::Remove(id) => q.remove(*id).map(|a| *a),
                                QOp::Find(id) => q.find(*id).map(|a| *a),
                                QOp::PopRepush => {
                                    let g = q.pop();
                                    if let Some(a) = &g {
                                        q.push(a.clone());
                                    }
                                    g.map(|a| *a)
                                }
                            };
                            let ret = conc::E2_CLOCK.fetch_add(1, std::sync::atomic::Ordering::SeqCst);
                            log.push(QRec {
                                thread: ti,
                                op: op.clone(),
                                call,
                                ret,
                                got,
                            });
                        }
                        log
                    })
                })
                .collect();
            hs.into_iter().map(|h| h.join().expect("queue thread")).collect()
        });
        let log: Vec<QRec> = logs.into_iter().flatten().collect();
        ops += log.len() as u64;
        let mut drained = Vec::new();
        while let Some(a) = q.pop() {
            drained.push(*a);
            if drained.len() > 100 {
                break;
            }
        }
        for r in &log {
            outcome = fnv_mix(outcome, r.got.map(|o| model::key(&model::id_of(&o)) as u64).unwrap_or(0) ^ (r.thread as u64) << 60);
        }
        for x in queue_ledger(&pre, &log, &drained, q.to_vec().len()) {
            bad.push(format!("queue program {}: {} || {}", i, x, qprog_desc(&pre, &threads).join(" / ")));
        }
        // id generator
        let g = Arc::new(UuidGenerator::new(Uuid::from_u128(seed as u128 + i as u128)));
        let ids: Vec<Vec<Uuid>> = std::thread::scope(|s| {
            let hs: Vec<_> = (0..3)
                .map(|_| {
                    let g = g.clone();
                    s.spawn(move || (0..3).map(|_| g.next()).collect::<Vec<Uuid>>())
                })
                .collect();
            hs.into_iter().map(|h| h.join().expect("idgen thread")).collect()
        });
        let flat: Vec<Uuid> = ids.into_iter().flatten().collect();
        ops += flat.len() as u64;
        let set: HashSet<Uuid> = flat.iter().copied().collect();
        if set.len() != flat.len() {
            bad.push(format!("id generator program {}: {} calls, {} distinct ids", i, flat.len(), set.len()));
        }
        let g2 = UuidGenerator::new(Uuid::from_u128(seed as u128 + i as u128));
        let seq: HashSet<Uuid> = (0..flat.len()).map(|_| g2.next()).collect();
        if seq != set {
            bad.push(format!("id generator program {}: concurrent set differs from the sequential one", i));
        }
    }
    println!("MINI-OUTCOME {:016x} programs={} operations={}", outcome, n, ops);
    for b in &bad {
        println!("MINI-VIOLATION {}", b);
    }
    if bad.is_empty() {
        0
    } else {
        1
    }
}

// ---------------------------------------------------------------------------------------------
// E2 "exchange" run: makers / takers / cancellers / amenders / pollers on one level, unique ids,
// 10^5 - 10^6 operations; the per-order search is run for every one of its orders.
// ---------------------------------------------------------------------------------------------

pub fn exchange(rep: &mut Report, which: Which, ops_per_thread: u64, warm: usize, plain: bool) {
    use std::sync::atomic::{AtomicBool, Ordering::SeqCst};
    crate::hook::install();
    let seed = rep.seed;
    let price = 100u64;
    let level = Arc::new(PriceLevel::new(price));
    let idgen = Arc::new(UuidGenerator::new(Uuid::from_u128(0xabcdef ^ seed as u128)));
    let bounds = Arc::new(Bounds::default());
    let recent: Arc<Mutex<Vec<pricelevel::OrderId>>> = Arc::new(Mutex::new(Vec::new()));
    let stop = Arc::new(AtomicBool::new(false));
    let roles: Vec<u8> = vec![0, 0, 0, 0, 1, 1, 1, 1, 2, 2, 2, 3, 3, 3];
    let mut polled: Vec<(u64, u64, u64)> = Vec::new();
    let mut logs: Vec<Vec<conc::CRec>> = Vec::new();
    // book depth tier: the book is warmed up with 0 / 40 / 150 / 700 orders (logged calls of a
    // pseudo thread) and the adders keep it up to 48 above that: past a 31-slot queue block, past
    // the map's growth steps
    let seed = seed ^ (warm as u64).wrapping_mul(0x9E37_79B9) ^ if plain { 0x71a1 } else { 0 };
    let cap = 48 + warm;
    {
        let ti = roles.len();
        let cfg = ProgCfg::base();
        let mut rng = Rng::derive(seed ^ 0xe8c4, ti as u64);
        let mut log: Vec<conc::CRec> = Vec::with_capacity(warm);
        for oi in 0..warm {
            let mut r2 = Rng::new(rng.next_u64());
            let mut o = conc_small(&mut r2, 1 + ti as u64 * 10_000_000 + oi as u64, price, &cfg);
            if model::vis(&o) == 0 {
                o = model::with_qty(&o, 1, model::hid(&o));
            }
            if plain {
                o = plain_of(&o, price);
            }
            let op = COp::Add(o);
            conc_raise(&bounds, &op);
            let call = conc::E2_CLOCK.fetch_add(1, SeqCst);
            let res = conc_apply(&level, &idgen, &op);
            let ret = conc::E2_CLOCK.fetch_add(1, SeqCst);
            recent.lock().unwrap().push(model::id_of(&o));
            log.push(conc::CRec {
                thread: ti,
                idx: oi,
                op,
                call,
                ret,
                res,
            });
        }
        logs.push(log);
    }
    rep.add(&format!("exchange_runs_with_book_warmed_to_{}{}", warm, if plain { "(one-fill orders only)" } else { "" }), 1);
    std::thread::scope(|s| {
        let mut hs = Vec::new();
        for (ti, role) in roles.iter().enumerate() {
            let level = level.clone();
            let idgen = idgen.clone();
            let bounds = bounds.clone();
            let recent = recent.clone();
            let role = *role;
            hs.push(s.spawn(move || {
                crate::hook::delay_begin(seed ^ (ti as u64 + 77) * 0x9E37, 12);
                let mut rng = Rng::derive(seed ^ 0xe8c4, ti as u64);
                let mut log: Vec<conc::CRec> = Vec::with_capacity(ops_per_thread as usize);
                let cfg = ProgCfg::base();
                let mut next_id = 1 + ti as u64 * 10_000_000;
                for oi in 0..ops_per_thread {
                    let op = match role {
                        0 => {
                            if level.order_count() > cap {
                                std::thread::yield_now();
                                continue;
                            }
                            let mut r2 = Rng::new(rng.next_u64());
                            let mut o = conc_small(&mut r2, next_id, price, &cfg);
                            next_id += 1;
                            if model::vis(&o) == 0 {
                                o = model::with_qty(&o, 1, model::hid(&o));
                            }
                            if plain {
                                o = plain_of(&o, price);
                            }
                            COp::Add(o)
                        }
                        1 => COp::Match {
                            // mostly a few orders' worth; on a deep book now and then a sweep over
                            // dozens of orders, and (rarely) over everything that is displayed
                            qty: if warm > 0 && rng.chance(1, if plain { 150 } else { 600 }) {
                                1 << 40
                            } else if warm > 0 && rng.chance(1, 24) {
                                rng.range(25, 400)
                            } else {
                                rng.range(1, 25)
                            },
                            taker: model::oid(900_000_000 + ti as u64 * 10_000_000 + oi),
                        },
                        _ => {
                            let id = {
                                let r = recent.lock().unwrap();
                                if r.is_empty() {
                                    None
                                } else {
                                    Some(r[r.len() - 1 - rng.usize_below(r.len().min(160))])
                                }
                            };
                            match id {
                                None => {
                                    std::thread::yield_now();
                                    continue;
                                }
                                Some(id) => {
                                    if role == 2 {
                                        if rng.chance(1, 6) {
                                            COp::Move(id, 1 + rng.below(3) as u8)
                                        } else {
                                            COp::Cancel(id)
                                        }
                                    } else {
                                        COp::Amend {
                                            id,
                                            qty: rng.range(1, 12),
                                        }
                                    }
                                }
                            }
                        }
                    };
                    conc_raise(&bounds, &op);
                    let call = conc::E2_CLOCK.fetch_add(1, SeqCst);
                    crate::hook::count_reset(crate::hook::FREE_RUN_CALL_BUDGET);
                    let res = match crate::hook::quiet_catch(|| conc_apply(&level, &idgen, &op)) {
                        Ok(r) => r,
                        Err(_) => {
                            log.push(conc::CRec {
                                thread: ti,
                                idx: oi as usize,
                                op,
                                call,
                                ret: u64::MAX,
                                res: CRes::Open,
                            });
                            break;
                        }
                    };
                    let ret = conc::E2_CLOCK.fetch_add(1, SeqCst);
                    if let COp::Add(o) = &op {
                        let mut r = recent.lock().unwrap();
                        r.push(model::id_of(o));
                        if r.len() > 4096 {
                            r.drain(..2048);
                        }
                    }
                    log.push(conc::CRec {
                        thread: ti,
                        idx: oi as usize,
                        op,
                        call,
                        ret,
                        res,
                    });
                }
                crate::hook::set_mode(crate::hook::Mode::Off);
                log
            }));
        }
        let mut ps = Vec::new();
        for _ in 0..2 {
            let level = level.clone();
            let stop = stop.clone();
            ps.push(s.spawn(move || {
                let mut v = Vec::new();
                while !stop.load(SeqCst) {
                    v.push((level.visible_quantity(), level.hidden_quantity(), level.order_count() as u64));
                    if v.len() > 2_000_000 {
                        v.clear();
                    }
                }
                v
            }));
        }
        for h in hs {
            logs.push(h.join().expect("exchange worker"));
        }
        stop.store(true, SeqCst);
        for p in ps {
            polled.extend(p.join().expect("poller"));
        }
    });
    let mut log: Vec<conc::CRec> = logs.into_iter().flatten().collect();
    log.sort_by_key(|r| r.call);
    let n_ops = log.len() as u64;
    let final_obs = crate::obs::observe(&level);
    let ex = Execution {
        prog: Program {
            price,
            preload: vec![],
            threads: vec![],
        },
        log,
        final_obs,
        level,
        idgen,
        exec: None,
        bounds,
        incomplete: false,
        e2_events: Vec::new(),
    };
    rep.add("exchange_operations", n_ops);
    if ex.log.iter().any(|r| matches!(r.res, CRes::Open)) {
        rep.inconclusive("exchange run: a call exceeded its step budget; the run is not judged".into());
        return;
    }
    rep.add("exchange_threads", roles.len() as u64);
    let mut findings: Vec<String> = Vec::new();
    match which {
        Which::C03 => {
            let mut lst = LinStats {
                ids_searched: 0,
                nodes: 0,
                capped: 0,
            };
            findings.extend(lin::quiescent_basics(&ex));
            findings.extend(lin::per_order_linearizable(&ex, &mut lst));
            rep.add("exchange_per_order_histories_searched", lst.ids_searched);
            for _ in 0..lst.capped {
                rep.inconclusive("exchange: per-order search exceeded its cap".into());
            }
        }
        Which::C12 => {
            let (bt, bh, ba) = (ex.bounds.total.load(SeqCst), ex.bounds.hidden.load(SeqCst), ex.bounds.adds.load(SeqCst));
            rep.add("exchange_polled_readings", polled.len() as u64);
            for (v, h, c) in &polled {
                if *v > bt || *h > bh || *c > ba {
                    findings.push(format!(
                        "exchange: a polling reader saw visible={} hidden={} count={} while everything ever submitted is total={} hidden={} orders={}",
                        v, h, c, bt, bh, ba
                    ));
                    break;
                }
            }
        }
        Which::C15 => findings.extend(lin::stats_vs_events(&ex)),
        Which::C08 => {
            if let Err(e) = crate::mon::obs_consistent(&ex.final_obs) {
                findings.push(format!("exchange, at quiescence: {}", e));
            }
            findings.extend(lin::drain_check(&ex));
        }
        Which::C13 => {
            let mut st = AckStats::default();
            let (v, k4) = lin::ack_truthful(&ex, &mut st);
            findings.extend(v);
            if k4 > 0 {
                rep.known(lin::SIG_K4, k4);
            }
            rep.add("exchange_not_found_replies", st.not_found);
            {
                let mut lst = LinStats { ids_searched: 0, nodes: 0, capped: 0 };
                for f in lin::cancelled_orders_linearizable(&ex, &mut lst) {
                    findings.push(format!("acknowledged cancel does not fit the order's history: {}", f));
                }
                rep.add("cancelled_order_histories_searched", lst.ids_searched);
            }
        }
    }
    let (inc, findings): (Vec<String>, Vec<String>) = findings.into_iter().partition(|f| f.starts_with(lin::INCONCLUSIVE));
    for f in inc {
        rep.inconclusive(format!("[E2 exchange run] {}", &f[lin::INCONCLUSIVE.len()..]));
    }
    for f in findings.iter().take(3) {
        rep.violation(
            format!("[E2 exchange run] {}", f),
            json!({"engine": "e2-exchange", "property": which.id(), "seed": seed, "operations": n_ops, "finding": f}),
        );
    }
}

fn conc_small(rng: &mut Rng, idn: u64, price: u64, cfg: &ProgCfg) -> model::Order {
    let p = conc::gen_program(rng, &ProgCfg { preload: (1, 1), threads: (1, 1), ops: (1, 1), ..*cfg });
    let o = p.preload[0];
    let o = model::with_id(&o, model::oid(idn));
    let _ = price;
    // gen_program draws its own price: rebuild at the exchange's price
    match o {
        _ => {
            let k = model::kind_of(&o);
            let mut params = model::Params::default();
            if let Some((t, a, au)) = model::reserve_params(&o) {
                params.thr = t;
                params.amt = a;
                params.auto = au;
            }
            model::mk(k, model::oid(idn), price, model::vis(&o), model::hid(&o), pricelevel::Side::Sell, idn, pricelevel::TimeInForce::Gtc, &params)
        }
    }
}

/// the same order as a one-fill order (nothing hidden)
fn plain_of(o: &model::Order, price: u64) -> model::Order {
    let k = match model::kind_of(o) {
        model::Kind::Iceberg | model::Kind::Reserve => model::Kind::Standard,
        k => k,
    };
    model::mk(
        k,
        model::id_of(o),
        price,
        model::vis(o).max(1),
        0,
        pricelevel::Side::Sell,
        model::ts_of(o),
        pricelevel::TimeInForce::Gtc,
        &model::Params::default(),
    )
}

fn conc_raise(b: &Bounds, op: &COp) {
    use std::sync::atomic::Ordering::SeqCst;
    match op {
        COp::Add(o) => {
            b.total.fetch_add(model::vis(o) + model::hid(o), SeqCst);
            b.hidden.fetch_add(model::hid(o), SeqCst);
            b.adds.fetch_add(1, SeqCst);
        }
        COp::Amend { qty, .. } => {
            b.total.fetch_add(*qty, SeqCst);
        }
        _ => {}
    }
}

fn conc_apply(level: &PriceLevel, idgen: &UuidGenerator, op: &COp) -> CRes {
    conc::apply_pub(level, idgen, op)
}

// ---------------------------------------------------------------------------------------------
// Bounded-preemption enumeration: ALL schedules with at most `bound` preemptions of small
// programs (stateless exploration: every schedule is a real execution from a fresh level).
// ---------------------------------------------------------------------------------------------

fn tiny_programs() -> Vec<Program> {
    use pricelevel::{Side, TimeInForce};
    let price = 10u64;
    let p = |thr: u64, amt: Option<u64>, auto: bool| model::Params {
        thr,
        amt,
        auto,
        ..model::Params::default()
    };
    let o = |k: model::Kind, n: u64, v: u64, h: u64, pr: &model::Params| model::mk(k, model::oid(n), price, v, h, Side::Sell, 100 + n, TimeInForce::Gtc, pr);
    let d = model::Params::default();
    let preloads: Vec<Vec<model::Order>> = vec![
        vec![o(model::Kind::Standard, 1, 5, 0, &d)],
        vec![o(model::Kind::Iceberg, 1, 3, 4, &d)],
        vec![o(model::Kind::Reserve, 1, 3, 4, &p(2, Some(2), true))],
        vec![o(model::Kind::Standard, 1, 4, 0, &d), o(model::Kind::Iceberg, 2, 2, 3, &d)],
        vec![o(model::Kind::Iceberg, 1, 0, 3, &d), o(model::Kind::Standard, 2, 4, 0, &d)],
    ];
    let x = model::oid(1);
    let ops: Vec<COp> = vec![
        COp::Match { qty: 2, taker: model::oid(9001) },
        COp::Match { qty: 9, taker: model::oid(9002) },
        COp::Cancel(x),
        COp::Move(x, 1),
        COp::Amend { id: x, qty: 7 },
        COp::Amend { id: x, qty: 1 },
        COp::Add(o(model::Kind::Standard, 50, 3, 0, &d)),
        COp::Read(1),
    ];
    let mut out = Vec::new();
    for pre in &preloads {
        for (i, a) in ops.iter().enumerate() {
            for (j, b) in ops.iter().enumerate() {
                if j < i {
                    continue; // unordered pairs: the two threads are symmetric
                }
                if matches!(a, COp::Read(_)) && matches!(b, COp::Read(_)) {
                    continue;
                }
                let mut b2 = b.clone();
                if let (COp::Match { .. }, COp::Match { qty, .. }) = (a, b) {
                    // two matchers need distinct taker ids
                    b2 = COp::Match { qty: *qty, taker: model::oid(9100) };
                }
                if let (COp::Add(_), COp::Add(_)) = (a, b) {
                    b2 = COp::Add(o(model::Kind::Standard, 51, 2, 0, &d));
                }
                out.push(Program {
                    price,
                    preload: pre.clone(),
                    threads: vec![vec![a.clone()], vec![b2]],
                });
            }
        }
    }
    // a fresh level: the add of X races with operations on X
    for k in [model::Kind::Standard, model::Kind::Iceberg, model::Kind::Reserve] {
        let x1 = if k == model::Kind::Standard { o(k, 1, 5, 0, &d) } else { o(k, 1, 3, 4, &p(2, Some(2), true)) };
        for b in [
            COp::Cancel(x),
            COp::Amend { id: x, qty: 7 },
            COp::Match { qty: 2, taker: model::oid(9001) },
            COp::Match { qty: 9, taker: model::oid(9002) },
            COp::Read(1),
        ] {
            out.push(Program {
                price,
                preload: vec![],
                threads: vec![vec![COp::Add(x1)], vec![b]],
            });
        }
        out.push(Program {
            price,
            preload: vec![],
            threads: vec![vec![COp::Add(x1)], vec![COp::Cancel(x)], vec![COp::Match { qty: 4, taker: model::oid(9003) }]],
        });
    }
    // a few three-thread programs: matcher + canceller + amender on the same order
    for pre in preloads.iter().take(3) {
        out.push(Program {
            price,
            preload: pre.clone(),
            threads: vec![
                vec![COp::Match { qty: 2, taker: model::oid(9001) }],
                vec![COp::Cancel(x)],
                vec![COp::Amend { id: x, qty: 6 }],
            ],
        });
    }
    out
}

/// Explores every schedule of `prog` with at most `bound` preemptions.
fn explore_bounded(
    which: Which,
    prog: &Program,
    bound: u32,
    cov: &mut Cov,
    part: &mut Report,
    lst: &mut LinStats,
    ast: &mut AckStats,
    pi: u64,
    max_runs: u64,
) -> (u64, bool) {
    let mut stack: Vec<(Vec<u8>, u32)> = vec![(Vec::new(), 0)];
    let mut runs = 0u64;
    let mut complete = true;
    while let Some((script, used)) = stack.pop() {
        if runs >= max_runs {
            complete = false;
            break;
        }
        let strat = Strategy::Script { choices: script.clone() };
        let (ex, rv) = run_one(which, prog, strat.clone(), 0, cov);
        runs += 1;
        part.evaluations += 1;
        let e = match &ex.exec {
            Some(e) => e,
            None => continue,
        };
        if e.verdict != Verdict::Completed {
            part.inconclusive(format!("[tiny program {} {}] {:?}", pi, strat.describe(), e.verdict));
            continue;
        }
        if ex.conflicting() {
            part.distinct.insert(fnv_mix(e.trace_hash, prog.hash()));
        }
        // children: deviate at every position at or after the end of this script
        let n = e.trace.len();
        for i in script.len()..n {
            let chosen = e.trace[i].0;
            let mask = e.runnable[i];
            let prev = if i == 0 { None } else { Some(e.trace[i - 1].0) };
            for a in 0..8u8 {
                if mask & (1 << a) == 0 || a == chosen {
                    continue;
                }
                // switching away from a thread that could have continued is a preemption
                let preempt = match prev {
                    Some(pv) => mask & (1 << pv) != 0 && a != pv,
                    None => false,
                };
                let cost = used + if preempt { 1 } else { 0 };
                // preemptions inside the default continuation of this run (positions script.len()..i) are none:
                // the default policy is non-preemptive
                if cost > bound {
                    continue;
                }
                let mut s2: Vec<u8> = e.trace[..i].iter().map(|t| t.0).collect();
                s2.push(a);
                stack.push((s2, cost));
            }
        }
        let findings = judge_execution(which, &ex, &rv, part, lst, ast);
        let (inc, findings): (Vec<String>, Vec<String>) = findings.into_iter().partition(|f| f.starts_with(lin::INCONCLUSIVE));
        for f in inc {
            part.inconclusive(format!("[tiny program {} {}] {}", pi, strat.describe(), &f[lin::INCONCLUSIVE.len()..]));
        }
        for f in findings.iter().take(1) {
            part.violation(
                format!("[tiny program {} {}] {}", pi, strat.describe(), f),
                json!({"engine": "e1-bounded", "property": which.id(), "tiny_program_index": pi, "strategy": strat.describe(),
                       "finding": f, "execution": ex.describe(),
                       "schedule": e.trace.iter().map(|(t, op, line)| format!("T{}:{:?}@{}", t, op, line)).collect::<Vec<_>>()}),
            );
        }
    }
    (runs, complete)
}

/// a fixed pool of slightly larger programs (2 threads x 2 operations), enumerated with a
/// smaller preemption bound
fn small_programs() -> Vec<Program> {
    let mut out = Vec::new();
    let mut rng = Rng::new(0x2b2);
    let mut cfg = ProgCfg::base();
    cfg.threads = (2, 2);
    cfg.ops = (2, 2);
    cfg.preload = (1, 3);
    cfg.w = [12, 36, 22, 26, 4];
    for _ in 0..96 {
        out.push(conc::gen_program(&mut rng, &cfg));
    }
    out
}

pub fn bounded_sweep(which: Which, rep: &mut Report, bound: u32, max_programs: usize, max_runs_per_program: u64) {
    let mut progs = tiny_programs();
    let n_tiny = progs.len();
    progs.extend(small_programs());
    let seed = rep.seed;
    let tier = rep.tier;
    let prop = which.id();
    let nw = ncpu();
    let n = progs.len().min(max_programs);
    // a seeded rotation decides which programs a capped run takes
    let offset = (seed as usize) % progs.len();
    let done: Mutex<(u64, u64, u64)> = Mutex::new((0, 0, 0));
    parallel(nw, rep, |w| {
        let mut part = Report::new(prop, tier, seed, "exploration");
        let mut cov = Cov {
            schedules: HashSet::new(),
            programs: HashSet::new(),
            sites: HashSet::new(),
            site_names: HashSet::new(),
            pairs: HashSet::new(),
            steps: 0,
            inspections: 0,
            blocked: 0,
        };
        let mut lst = LinStats {
            ids_searched: 0,
            nodes: 0,
            capped: 0,
        };
        let mut ast = AckStats::default();
        let mut k = w;
        while k < n {
            let pi = (k + offset) % progs.len();
            // the 2x2 pool gets one preemption less (its schedules are ~4x longer)
            let b = if pi >= n_tiny { bound.saturating_sub(1).max(1) } else { bound };
            let (runs, complete) = explore_bounded(which, &progs[pi], b, &mut cov, &mut part, &mut lst, &mut ast, pi as u64, max_runs_per_program);
            let mut d = done.lock().unwrap();
            d.0 += 1;
            d.1 += runs;
            if complete {
                d.2 += 1;
            }
            k += nw;
        }
        part.add("bounded_sweep_distinct_schedules", cov.schedules.len() as u64);
        part
    });
    let d = done.lock().unwrap();
    rep.set("bounded_sweep_preemption_bound", json!(bound));
    rep.set("bounded_sweep_programs", json!(d.0));
    rep.set("bounded_sweep_programs_fully_enumerated", json!(d.2));
    rep.set("bounded_sweep_executions", json!(d.1));
    rep.set("bounded_sweep_program_pool", json!(progs.len()));
    rep.set(
        "exhaustive_scope",
        json!(format!(
            "for {} of the {} small programs (about 190 tiny ones: 2 threads x 1 operation from {{match 2, match 9, cancel X, move X to another price, amend X->7, amend X->1, add, snapshot}} on 5 preloads, plus 3 three-thread programs; and a fixed pool of 96 generated 2 threads x 2 operations programs, with one preemption less) EVERY schedule with at most {} preemptions was executed; everything else is sampled",
            d.2,
            progs.len(),
            bound
        )),
    );
}

// ---------------------------------------------------------------------------------------------
// Bounded-preemption enumeration for the bare queue (C08, second family)
// ---------------------------------------------------------------------------------------------

fn run_queue_script(pre: &[model::Order], threads: &[Vec<QOp>], strat: Strategy) -> (sched::ExecResult, Vec<QRec>, Vec<model::Order>, usize) {
    crate::hook::install();
    let q = Arc::new(OrderQueue::new());
    for o in pre {
        q.push(Arc::new(*o));
    }
    let log: Arc<Mutex<Vec<QRec>>> = Arc::new(Mutex::new(Vec::new()));
    let mut bodies: Vec<Body> = Vec::new();
    for (ti, ops) in threads.iter().enumerate() {
        let q = q.clone();
        let log = log.clone();
        let ops = ops.clone();
        bodies.push(Box::new(move |wk: &Worker| {
            for op in ops.iter() {
                let call = wk.stamp();
                let got = match op {
                    QOp::Push(o) => {
                        q.push(Arc::new(*o));
                        None
                    }
                    QOp::Pop => q.pop().map(|a| *a),
                    QOp::Remove(id) => q.remove(*id).map(|a| *a),
                    QOp::Find(id) => q.find(*id).map(|a| *a),
                    QOp::PopRepush => {
                        let g = q.pop();
                        if let Some(a) = &g {
                            q.push(a.clone());
                        }
                        g.map(|a| *a)
                    }
                };
                let ret = wk.stamp();
                log.lock().unwrap().push(QRec {
                    thread: ti,
                    op: op.clone(),
                    call,
                    ret,
                    got,
                });
            }
        }));
    }
    let exec = sched::run_exec(bodies, strat, 0, STEP_BUDGET, false, &mut |_| {});
    let mut drained = Vec::new();
    if exec.verdict == Verdict::Completed {
        while let Some(a) = q.pop() {
            drained.push(*a);
            if drained.len() > 100 {
                break;
            }
        }
    }
    let left = q.to_vec().len();
    let log = std::mem::take(&mut *log.lock().unwrap());
    (exec, log, drained, left)
}

fn tiny_queue_programs() -> Vec<(Vec<model::Order>, Vec<Vec<QOp>>)> {
    let o = |n: u64| {
        model::mk(
            model::Kind::Standard,
            model::oid(n),
            10,
            n,
            0,
            pricelevel::Side::Buy,
            n,
            pricelevel::TimeInForce::Gtc,
            &model::Params::default(),
        )
    };
    let pres: Vec<Vec<model::Order>> = vec![vec![], vec![o(1)], vec![o(1), o(2)]];
    let x = model::oid(1);
    let ops: Vec<QOp> = vec![QOp::Push(o(7)), QOp::Pop, QOp::Remove(x), QOp::Find(x), QOp::PopRepush];
    let mut out = Vec::new();
    for pre in &pres {
        for (i, a) in ops.iter().enumerate() {
            for (j, b) in ops.iter().enumerate() {
                if j < i {
                    continue;
                }
                let mut b2 = b.clone();
                if let (QOp::Push(_), QOp::Push(_)) = (a, b) {
                    b2 = QOp::Push(o(8));
                }
                out.push((pre.clone(), vec![vec![a.clone()], vec![b2.clone()]]));
                // and a variant in which the first thread does two operations
                out.push((pre.clone(), vec![vec![a.clone(), QOp::Pop], vec![b2]]));
            }
        }
    }
    out
}

pub fn bounded_queue_sweep(rep: &mut Report, bound: u32, max_runs_per_program: u64) {
    let progs = tiny_queue_programs();
    let seed = rep.seed;
    let tier = rep.tier;
    let nw = ncpu();
    let totals: Mutex<(u64, u64)> = Mutex::new((0, 0));
    parallel(nw, rep, |w| {
        let mut part = Report::new("C08", tier, seed, "exploration");
        let mut k = w;
        while k < progs.len() {
            let (pre, threads) = &progs[k];
            let mut stack: Vec<(Vec<u8>, u32)> = vec![(Vec::new(), 0)];
            let mut runs = 0u64;
            let mut complete = true;
            while let Some((script, used)) = stack.pop() {
                if runs >= max_runs_per_program {
                    complete = false;
                    break;
                }
                let strat = Strategy::Script { choices: script.clone() };
                let (e, log, drained, left) = run_queue_script(pre, threads, strat.clone());
                runs += 1;
                part.evaluations += 1;
                if e.verdict != Verdict::Completed {
                    part.inconclusive(format!("[tiny queue program {} {}] {:?}", k, strat.describe(), e.verdict));
                    continue;
                }
                part.distinct.insert(fnv_mix(e.trace_hash, 0x9000 + k as u64));
                let n = e.trace.len();
                for i in script.len()..n {
                    let chosen = e.trace[i].0;
                    let mask = e.runnable[i];
                    let prev = if i == 0 { None } else { Some(e.trace[i - 1].0) };
                    for a in 0..8u8 {
                        if mask & (1 << a) == 0 || a == chosen {
                            continue;
                        }
                        let preempt = match prev {
                            Some(pv) => mask & (1 << pv) != 0 && a != pv,
                            None => false,
                        };
                        let cost = used + if preempt { 1 } else { 0 };
                        if cost > bound {
                            continue;
                        }
                        let mut s2: Vec<u8> = e.trace[..i].iter().map(|t| t.0).collect();
                        s2.push(a);
                        stack.push((s2, cost));
                    }
                }
                for f in queue_ledger(pre, &log, &drained, left).iter().take(1) {
                    let mut l2 = log.clone();
                    l2.sort_by_key(|r| r.call);
                    part.violation(
                        format!("[tiny queue program {} {}] {}", k, strat.describe(), f),
                        json!({"engine": "e1-queue-bounded", "property": "C08", "tiny_program_index": k, "strategy": strat.describe(),
                               "program": qprog_desc(pre, threads),
                               "history": l2.iter().map(|r| format!("[{}..{}] T{} {:?} -> {:?}", r.call, r.ret, r.thread, r.op, r.got.map(|o| model::short(&o)))).collect::<Vec<_>>(),
                               "finding": f}),
                    );
                }
            }
            let mut t = totals.lock().unwrap();
            t.0 += runs;
            if complete {
                t.1 += 1;
            }
            k += nw;
        }
        part
    });
    let t = totals.lock().unwrap();
    rep.set("queue_bounded_sweep_preemption_bound", json!(bound));
    rep.set("queue_bounded_sweep_executions", json!(t.0));
    rep.set("queue_bounded_sweep_programs_fully_enumerated", json!(t.1));
    rep.set("queue_bounded_sweep_program_pool", json!(progs.len()));
}

// ---------------------------------------------------------------------------------------------
// C13 "bystander" workload (E2): one order that nobody else ever touches is amended in a loop
// while many threads add / cancel / amend OTHER ids at full speed.  No other thread can hold it,
// so every not-found for it is a violation - the sharpest oracle for lookups that fail
// spuriously under real contention (e.g. a try-lock on a busy map shard).
// ---------------------------------------------------------------------------------------------

pub fn bystander(rep: &mut Report, threads: usize, ops: u64) {
    use pricelevel::OrderUpdate;
    use std::sync::atomic::{AtomicBool, AtomicU64, Ordering::SeqCst};
    crate::hook::install();
    let seed = rep.seed;
    let price = 50u64;
    let level = Arc::new(PriceLevel::new(price));
    let mk = |n: u64, q: u64| {
        model::mk(
            model::Kind::Standard,
            model::oid(n),
            price,
            q,
            0,
            pricelevel::Side::Sell,
            n,
            pricelevel::TimeInForce::Gtc,
            &model::Params::default(),
        )
    };
    let xs: Vec<pricelevel::OrderId> = (1..=3u64).map(|n| model::oid(n)).collect();
    level.add_order(mk(1, 10));
    level.add_order(model::mk(model::Kind::Iceberg, model::oid(2), price, 5, 9, pricelevel::Side::Sell, 2, pricelevel::TimeInForce::Gtc, &model::Params::default()));
    level.add_order(mk(3, 7));
    let stop = Arc::new(AtomicBool::new(false));
    let misses = Arc::new(AtomicU64::new(0));
    let amends = Arc::new(AtomicU64::new(0));
    let first: Arc<Mutex<Option<String>>> = Arc::new(Mutex::new(None));
    std::thread::scope(|s| {
        // the amender: the only thread that ever touches X1..X3
        {
            let level = level.clone();
            let stop = stop.clone();
            let misses = misses.clone();
            let amends = amends.clone();
            let first = first.clone();
            let xs = xs.clone();
            s.spawn(move || {
                let mut rng = Rng::derive(seed ^ 0xb157, 0);
                for i in 0..ops {
                    let id = xs[(i % 3) as usize];
                    let u = if i % 5 == 4 {
                        OrderUpdate::UpdatePriceAndQuantity {
                            order_id: id,
                            new_price: price,
                            new_quantity: 1 + rng.below(20),
                        }
                    } else {
                        OrderUpdate::UpdateQuantity {
                            order_id: id,
                            new_quantity: 1 + rng.below(20),
                        }
                    };
                    amends.fetch_add(1, SeqCst);
                    match level.update_order(u) {
                        Ok(Some(_)) => {}
                        other => {
                            misses.fetch_add(1, SeqCst);
                            let mut f = first.lock().unwrap();
                            if f.is_none() {
                                *f = Some(format!("amend #{} of {} returned {:?}", i, id, other.map(|o| o.map(|a| a.to_string()))));
                            }
                        }
                    }
                }
                stop.store(true, SeqCst);
            });
        }
        for t in 0..threads {
            let level = level.clone();
            let stop = stop.clone();
            s.spawn(move || {
                let mut rng = Rng::derive(seed ^ 0xb157, 1 + t as u64);
                let mut n = 10_000_000 * (t as u64 + 1);
                let mut mine: Vec<pricelevel::OrderId> = Vec::new();
                while !stop.load(SeqCst) {
                    match rng.below(4) {
                        0 => {
                            n += 1;
                            let o = mk(n, 1 + rng.below(9));
                            mine.push(model::id_of(&o));
                            level.add_order(o);
                        }
                        1 => {
                            // cancel one of its own, or an id that is not in the book
                            let id = if !mine.is_empty() && rng.chance(1, 2) {
                                mine.swap_remove(rng.usize_below(mine.len()))
                            } else {
                                model::oid(900_000_000 + rng.below(100_000))
                            };
                            let _ = level.update_order(OrderUpdate::Cancel { order_id: id });
                        }
                        2 => {
                            if let Some(id) = mine.last() {
                                let _ = level.update_order(OrderUpdate::UpdateQuantity {
                                    order_id: *id,
                                    new_quantity: 1 + rng.below(9),
                                });
                            }
                        }
                        _ => {
                            let _ = (level.visible_quantity(), level.order_count());
                        }
                    }
                    if mine.len() > 64 {
                        let id = mine.swap_remove(0);
                        let _ = level.update_order(OrderUpdate::Cancel { order_id: id });
                    }
                }
            });
        }
    });
    rep.add("bystander_amends_of_untouched_orders", amends.load(SeqCst));
    rep.add("bystander_threads", threads as u64 + 1);
    let m = misses.load(SeqCst);
    if m > 0 {
        rep.violation(
            format!(
                "bystander workload: {} of {} amends of orders that no other thread ever touches did not find their order; first: {}",
                m,
                amends.load(SeqCst),
                first.lock().unwrap().clone().unwrap_or_default()
            ),
            json!({"engine": "e2-bystander", "property": "C13", "seed": seed, "misses": m}),
        );
    }
}
