//! Monitors over recorded H-seq traces.  Each is a small deterministic checker written from the
//! property statement; none of them calls into pricelevel.

use crate::hseq::{HOp, HRes, Rec, Trace};
use crate::model::{self, Fate, Order};
use crate::obs::Obs;
use crate::sim::Sim;
use pricelevel::OrderUpdate;
use std::collections::{BTreeMap, HashMap, HashSet};

#[derive(Clone, Debug)]
pub struct Finding {
    pub at: usize,
    pub what: String,
}

fn f(at: usize, what: String) -> Finding {
    Finding { at, what }
}

// ---------------------------------------------------------------------------------------------
// C01  aggregates = sums over the listing
// ---------------------------------------------------------------------------------------------

pub fn obs_consistent(o: &Obs) -> Result<(), String> {
    let sv = o.sum_vis();
    let sh = o.sum_hid();
    if o.vis as u128 != sv {
        return Err(format!("visible_quantity {} != sum of visible {}", o.vis, sv));
    }
    if o.hid as u128 != sh {
        return Err(format!("hidden_quantity {} != sum of hidden {}", o.hid, sh));
    }
    if o.count != o.orders.len() {
        return Err(format!("order_count {} != listed orders {}", o.count, o.orders.len()));
    }
    if sv + sh <= u64::MAX as u128 {
        match o.total {
            Some(t) if t as u128 == sv + sh => {}
            Some(t) => return Err(format!("total_quantity {} != visible+hidden {}", t, sv + sh)),
            None => return Err("total_quantity panicked although visible+hidden fits in 64 bits".into()),
        }
    }
    if o.snap != [o.vis, o.hid, o.count as u64, o.orders.len() as u64] {
        return Err(format!(
            "snapshot() aggregates {:?} != level aggregates [{}, {}, {}, {}]",
            o.snap,
            o.vis,
            o.hid,
            o.count,
            o.orders.len()
        ));
    }
    // each resting order listed once
    let mut ids: Vec<u128> = o.orders.iter().map(|x| model::key(&model::id_of(x))).collect();
    ids.sort();
    if ids.windows(2).any(|w| w[0] == w[1]) {
        return Err("an order id is listed twice".into());
    }
    Ok(())
}

pub fn agg(tr: &Trace) -> Vec<Finding> {
    let mut out = Vec::new();
    if let Err(e) = obs_consistent(&tr.initial) {
        out.push(f(0, format!("fresh level: {}", e)));
    }
    for (i, r) in tr.recs.iter().enumerate() {
        if let HRes::Panicked(m) = &r.res {
            out.push(f(i, format!("{} panicked: {}", r.op.describe(), m)));
            continue;
        }
        if let HRes::Rebuilt(Err(e)) = &r.res {
            out.push(f(i, format!("{} failed: {}", r.op.describe(), e)));
            continue;
        }
        if matches!(r.res, HRes::Overrun) {
            continue;
        }
        if let Err(e) = obs_consistent(&r.after) {
            out.push(f(i, format!("after {}: {}", r.op.describe(), e)));
        }
    }
    out
}

// ---------------------------------------------------------------------------------------------
// C02  match accounting + lifetime ledger
// ---------------------------------------------------------------------------------------------

pub fn matchacct(tr: &Trace) -> Vec<Finding> {
    let mut out = Vec::new();
    let mut seen_tx: HashSet<u128> = HashSet::new();
    // id -> (supplied, filled)
    let mut ledger: HashMap<u128, (i128, i128)> = HashMap::new();
    for o in &tr.initial.orders {
        ledger.insert(model::key(&model::id_of(o)), (model::total(o) as i128, 0));
    }
    for (i, r) in tr.recs.iter().enumerate() {
        match (&r.op, &r.res) {
            (HOp::Add(o), HRes::Added(_)) => {
                ledger.insert(model::key(&model::id_of(o)), (model::total(o) as i128, 0));
            }
            (HOp::Match { qty, taker }, HRes::Matched(m)) => {
                let txs = m.transactions.as_vec();
                let exec: u128 = txs.iter().map(|t| t.quantity as u128).sum();
                if exec + m.remaining_quantity as u128 != *qty as u128 {
                    out.push(f(
                        i,
                        format!("executed {} + remaining {} != requested {}", exec, m.remaining_quantity, qty),
                    ));
                }
                if m.is_complete != (m.remaining_quantity == 0) {
                    out.push(f(
                        i,
                        format!("is_complete={} but remaining={}", m.is_complete, m.remaining_quantity),
                    ));
                }
                if exec <= u64::MAX as u128 && m.executed_quantity() as u128 != exec {
                    out.push(f(i, "executed_quantity() != sum of transaction quantities".into()));
                }
                if m.order_id != *taker {
                    out.push(f(i, "MatchResult.order_id is not the taker id".into()));
                }
                let mut traded: Vec<u128> = Vec::new();
                for t in txs {
                    let mk = model::key(&t.maker_order_id);
                    if t.quantity == 0 {
                        out.push(f(i, "transaction with quantity 0".into()));
                    }
                    if t.price != tr.price {
                        out.push(f(i, format!("transaction price {} != level price {}", t.price, tr.price)));
                    }
                    if t.taker_order_id != *taker {
                        out.push(f(i, "transaction taker id is not the given taker".into()));
                    }
                    match r.before.find(mk) {
                        None => out.push(f(i, format!("maker {:x} was not resting before the call", mk))),
                        Some(o) => {
                            if t.taker_side != model::opposite(model::side_of(o)) {
                                out.push(f(i, "taker side is not opposite to the maker's side".into()));
                            }
                        }
                    }
                    if !seen_tx.insert(t.transaction_id.as_u128()) {
                        out.push(f(i, format!("transaction id {} issued before", t.transaction_id)));
                    }
                    let e = ledger
                        .entry(mk)
                        .or_insert_with(|| (r.before.find(mk).map(|o| model::total(o) as i128).unwrap_or(0), 0));
                    e.1 += t.quantity as i128;
                    if e.1 > e.0 {
                        out.push(f(
                            i,
                            format!(
                                "order {:x} over-filled: traded {} in its lifetime, supplied {}",
                                mk, e.1, e.0
                            ),
                        ));
                    }
                    if !traded.contains(&mk) {
                        traded.push(mk);
                    }
                }
                // filled-order list = makers that traded in this call and are gone after it
                let mut want: Vec<u128> = traded.iter().copied().filter(|k| r.after.find(*k).is_none()).collect();
                let mut got: Vec<u128> = m.filled_order_ids.iter().map(model::key).collect();
                want.sort();
                got.sort();
                if want != got {
                    out.push(f(
                        i,
                        format!(
                            "filled_order_ids {:x?} != makers that traded and left {:x?}",
                            got, want
                        ),
                    ));
                }
            }
            (HOp::Update(_), HRes::Updated(Ok(Some(x)))) => {
                let k = model::key(&model::id_of(x));
                if let (Some(b), Some(a)) = (r.before.find(k), r.after.find(k)) {
                    // same-price amend: supply adjusted by the amendment
                    let e = ledger.entry(k).or_insert((model::total(b) as i128, 0));
                    e.0 += model::total(a) as i128 - model::total(b) as i128;
                }
            }
            (HOp::Rebuild(_), HRes::Rebuilt(Ok(()))) => {
                for o in &r.after.orders {
                    let k = model::key(&model::id_of(o));
                    let e = ledger.entry(k).or_insert((model::total(o) as i128, 0));
                    // a rebuild must not change quantities (C10); the ledger just follows
                    e.0 = e.1 + model::total(o) as i128;
                }
            }
            _ => {}
        }
        // incarnations end when the order is no longer listed
        let gone: Vec<u128> = ledger.keys().copied().filter(|k| r.after.find(*k).is_none()).collect();
        for k in gone {
            ledger.remove(&k);
        }
    }
    out
}

// ---------------------------------------------------------------------------------------------
// C05 seen through the level: evolve every maker by the statement's rule
// ---------------------------------------------------------------------------------------------

pub fn rules(tr: &Trace) -> Vec<Finding> {
    let mut out = Vec::new();
    for (i, r) in tr.recs.iter().enumerate() {
        let (qty, m) = match (&r.op, &r.res) {
            (HOp::Match { qty, .. }, HRes::Matched(m)) => (*qty, m),
            _ => continue,
        };
        let mut st: HashMap<u128, Option<Order>> = r
            .before
            .orders
            .iter()
            .map(|o| (model::key(&model::id_of(o)), Some(*o)))
            .collect();
        let mut traded: HashSet<u128> = HashSet::new();
        let mut rem = qty;
        let mut broken = false;
        for t in m.transactions.as_vec() {
            let k = model::key(&t.maker_order_id);
            let cur = match st.get(&k) {
                Some(Some(o)) => *o,
                _ => {
                    out.push(f(i, format!("transaction against {:x} which should not be resting", k)));
                    broken = true;
                    break;
                }
            };
            let mut cur = cur;
            if model::vis(&cur) == 0 {
                // an order with nothing displayed can only trade after a silent visit replenished it
                let s0 = model::spec_fill(&cur, rem);
                match s0.fate {
                    Fate::Stay(n) => cur = n,
                    Fate::Leave { .. } => {
                        out.push(f(i, format!("{:x} had nothing displayed and nothing to replenish, yet traded", k)));
                        broken = true;
                        break;
                    }
                }
            }
            let s = model::spec_fill(&cur, rem);
            if s.consumed != t.quantity {
                out.push(f(
                    i,
                    format!(
                        "fill of {} : quantity {} but rule gives min(remaining {}, displayed {}) = {}",
                        model::short(&cur),
                        t.quantity,
                        rem,
                        model::vis(&cur),
                        s.consumed
                    ),
                ));
                broken = true;
                break;
            }
            rem -= s.consumed;
            traded.insert(k);
            match s.fate {
                Fate::Stay(n) => {
                    st.insert(k, Some(n));
                }
                Fate::Leave { .. } => {
                    st.insert(k, None);
                }
            }
        }
        if broken {
            continue;
        }
        for (k, s) in &st {
            let a = r.after.find(*k).copied();
            if traded.contains(k) {
                if a != *s {
                    out.push(f(
                        i,
                        format!(
                            "after the match {:x} is {} but the rules give {}",
                            k,
                            a.map(|o| model::short(&o)).unwrap_or_else(|| "gone".into()),
                            s.map(|o| model::short(&o)).unwrap_or_else(|| "gone".into())
                        ),
                    ));
                }
            } else {
                let b = s.unwrap();
                if a == Some(b) {
                    continue;
                }
                // untouched, or silently visited while nothing was displayed
                let ok = model::vis(&b) == 0 && {
                    let sv = model::spec_fill(&b, 1);
                    match sv.fate {
                        Fate::Stay(n) => a == Some(n),
                        Fate::Leave { .. } => a.is_none(),
                    }
                };
                if !ok {
                    out.push(f(
                        i,
                        format!(
                            "{} did not trade but is {} after the match",
                            model::short(&b),
                            a.map(|o| model::short(&o)).unwrap_or_else(|| "gone".into())
                        ),
                    ));
                }
            }
        }
        for o in &r.after.orders {
            if !st.contains_key(&model::key(&model::id_of(o))) {
                out.push(f(i, format!("{} appeared during a match", model::short(o))));
            }
        }
    }
    out
}

// ---------------------------------------------------------------------------------------------
// C06  bounded progress
// ---------------------------------------------------------------------------------------------

pub fn progress(tr: &Trace) -> Vec<Finding> {
    let mut out = Vec::new();
    for (i, r) in tr.recs.iter().enumerate() {
        let qty = match &r.op {
            HOp::Match { qty, .. } => *qty,
            _ => continue,
        };
        match &r.res {
            HRes::Overrun => out.push(f(
                i,
                format!(
                    "match {} did not return within {} shared-memory steps (level: {})",
                    qty,
                    crate::hseq::CALL_BUDGET,
                    r.before.orders.iter().map(model::short).collect::<Vec<_>>().join(" ")
                ),
            )),
            HRes::Matched(m) => {
                if m.remaining_quantity > 0 {
                    if let Some(o) = r.after.orders.iter().find(|o| model::vis(o) > 0) {
                        out.push(f(
                            i,
                            format!(
                                "match returned with {} remaining although {} still displays quantity",
                                m.remaining_quantity,
                                model::short(o)
                            ),
                        ));
                    }
                }
                let exec: u128 = m.transactions.as_vec().iter().map(|t| t.quantity as u128).sum();
                let avail = r.before.sum_vis();
                if exec < (qty as u128).min(avail) {
                    out.push(f(
                        i,
                        format!("executed {} < min(requested {}, displayed at start {})", exec, qty, avail),
                    ));
                }
            }
            _ => {}
        }
    }
    out
}

// ---------------------------------------------------------------------------------------------
// C07  update contract
// ---------------------------------------------------------------------------------------------

fn same_world(a: &Obs, b: &Obs) -> bool {
    a.canon() == b.canon() && a.vis == b.vis && a.hid == b.hid && a.count == b.count && a.stats == b.stats
}

fn others_untouched(before: &Obs, after: &Obs, except: u128) -> Result<(), String> {
    for o in &before.orders {
        let k = model::key(&model::id_of(o));
        if k == except {
            continue;
        }
        match after.find(k) {
            Some(a) if a == o => {}
            Some(a) => return Err(format!("other order changed: {} -> {}", model::short(o), model::short(a))),
            None => return Err(format!("other order {} disappeared", model::short(o))),
        }
    }
    for o in &after.orders {
        let k = model::key(&model::id_of(o));
        if k != except && before.find(k).is_none() {
            return Err(format!("order {} appeared", model::short(o)));
        }
    }
    Ok(())
}

pub fn update_contract(tr: &Trace) -> Vec<Finding> {
    let mut out = Vec::new();
    // ids taken out by cancel / move and not re-added since
    let mut removed: HashSet<u128> = HashSet::new();
    for (i, r) in tr.recs.iter().enumerate() {
        match (&r.op, &r.res) {
            (HOp::Add(o), _) => {
                removed.remove(&model::key(&model::id_of(o)));
            }
            (HOp::Rebuild(_), _) => {
                for o in &r.after.orders {
                    removed.remove(&model::key(&model::id_of(o)));
                }
            }
            (HOp::Match { .. }, HRes::Matched(m)) => {
                for t in m.transactions.as_vec() {
                    let k = model::key(&t.maker_order_id);
                    if removed.contains(&k) {
                        out.push(f(i, format!("order {:x} traded after it was cancelled / moved away", k)));
                    }
                }
            }
            (HOp::Update(u), HRes::Updated(res)) => {
                let (id, kind): (u128, u8) = match u {
                    OrderUpdate::Cancel { order_id } => (model::key(order_id), 0),
                    OrderUpdate::UpdatePrice { order_id, new_price } => {
                        (model::key(order_id), if *new_price != tr.price { 0 } else { 2 })
                    }
                    OrderUpdate::UpdateQuantity { order_id, .. } => (model::key(order_id), 1),
                    OrderUpdate::UpdatePriceAndQuantity {
                        order_id, new_price, ..
                    } => (model::key(order_id), if *new_price != tr.price { 0 } else { 1 }),
                    OrderUpdate::Replace { order_id, price, .. } => {
                        (model::key(order_id), if *price != tr.price { 0 } else { 1 })
                    }
                };
                let newq = match u {
                    OrderUpdate::UpdateQuantity { new_quantity, .. }
                    | OrderUpdate::UpdatePriceAndQuantity { new_quantity, .. } => *new_quantity,
                    OrderUpdate::Replace { quantity, .. } => *quantity,
                    _ => 0,
                };
                let was = r.before.find(id).copied();
                match kind {
                    2 => {
                        // price update to the level's own price: rejected without effect.  For an
                        // id that is not resting the statement also allows "not found".
                        let tolerated = was.is_none() && matches!(res, Ok(None));
                        if res.is_ok() && !tolerated {
                            out.push(f(i, format!("{} was not rejected", r.op.describe())));
                        }
                        if !same_world(&r.before, &r.after) {
                            out.push(f(i, format!("rejected {} had an effect", r.op.describe())));
                        }
                    }
                    0 => match was {
                        Some(b) => {
                            match res {
                                Ok(Some(x)) if *x == b => {}
                                Ok(Some(x)) => out.push(f(
                                    i,
                                    format!(
                                        "{} returned {} but the resting order was {}",
                                        r.op.describe(),
                                        model::short(x),
                                        model::short(&b)
                                    ),
                                )),
                                other => out.push(f(
                                    i,
                                    format!("{} on a resting order returned {:?}", r.op.describe(), other.as_ref().map(|o| o.is_some())),
                                )),
                            }
                            if r.after.find(id).is_some() {
                                out.push(f(i, format!("{}: order still resting afterwards", r.op.describe())));
                            }
                            if let Err(e) = others_untouched(&r.before, &r.after, id) {
                                out.push(f(i, format!("{}: {}", r.op.describe(), e)));
                            }
                            removed.insert(id);
                        }
                        None => {
                            if !matches!(res, Ok(None)) {
                                out.push(f(i, format!("{} on an unknown id did not report not-found", r.op.describe())));
                            }
                            if !same_world(&r.before, &r.after) {
                                out.push(f(i, format!("{} on an unknown id changed the level", r.op.describe())));
                            }
                        }
                    },
                    _ => match was {
                        Some(b) => {
                            match res {
                                Ok(Some(x)) => {
                                    if r.after.find(id) != Some(x) {
                                        out.push(f(
                                            i,
                                            format!(
                                                "{} returned {} but what rests is {}",
                                                r.op.describe(),
                                                model::short(x),
                                                r.after.find(id).map(model::short).unwrap_or_else(|| "nothing".into())
                                            ),
                                        ));
                                    }
                                    if !model::same_identity(&b, x) {
                                        out.push(f(i, format!("{} changed an identity field", r.op.describe())));
                                    }
                                    if model::kind_of(&b).amendable() {
                                        if model::vis(x) != newq || model::hid(x) != model::hid(&b) {
                                            out.push(f(
                                                i,
                                                format!(
                                                    "{}: new displayed quantity {} (hidden {}), expected {} (hidden {})",
                                                    r.op.describe(),
                                                    model::vis(x),
                                                    model::hid(x),
                                                    newq,
                                                    model::hid(&b)
                                                ),
                                            ));
                                        }
                                    } else if model::hid(x) != model::hid(&b)
                                        || (model::vis(x) != newq && model::vis(x) != model::vis(&b))
                                    {
                                        out.push(f(i, format!("{}: quantities changed to something else", r.op.describe())));
                                    }
                                }
                                other => out.push(f(
                                    i,
                                    format!("{} on a resting order returned {:?}", r.op.describe(), other.as_ref().map(|o| o.is_some())),
                                )),
                            }
                            if let Err(e) = others_untouched(&r.before, &r.after, id) {
                                out.push(f(i, format!("{}: {}", r.op.describe(), e)));
                            }
                        }
                        None => {
                            if !matches!(res, Ok(None)) {
                                out.push(f(i, format!("{} on an unknown id did not report not-found", r.op.describe())));
                            }
                            if !same_world(&r.before, &r.after) {
                                out.push(f(i, format!("{} on an unknown id changed the level", r.op.describe())));
                            }
                        }
                    },
                }
            }
            _ => {}
        }
    }
    out
}

// ---------------------------------------------------------------------------------------------
// C15  statistics vs events
// ---------------------------------------------------------------------------------------------

pub fn stats(tr: &Trace) -> Vec<Finding> {
    let mut out = Vec::new();
    let mut sh = [0u128; 4];
    if tr.initial.stats != [0, 0, 0, 0] {
        out.push(f(0, format!("fresh level has statistics {:?}", tr.initial.stats)));
    }
    for (i, r) in tr.recs.iter().enumerate() {
        match (&r.op, &r.res) {
            (HOp::Add(_), HRes::Added(_)) => sh[0] += 1,
            (HOp::Update(_), HRes::Updated(Ok(Some(x)))) => {
                // removed by cancel or price move = returned and no longer resting
                if r.after.find(model::key(&model::id_of(x))).is_none() {
                    sh[1] += 1;
                }
            }
            (HOp::Match { .. }, HRes::Matched(m)) => {
                for t in m.transactions.as_vec() {
                    sh[2] += t.quantity as u128;
                    sh[3] += t.quantity as u128 * tr.price as u128;
                }
            }
            (HOp::Rebuild(_), _) => return out, // C15 is judged on levels made by PriceLevel::new
            (_, HRes::Panicked(_)) | (_, HRes::Overrun) => return out,
            _ => {}
        }
        let got = r.after.stats;
        let want = [sh[0], sh[1], sh[2], sh[3]];
        let names = ["orders_added", "orders_removed", "quantity_executed", "value_executed"];
        for j in 0..4 {
            if got[j] as u128 != want[j] {
                out.push(f(
                    i,
                    format!("after {}: {} = {} but the events give {}", r.op.describe(), names[j], got[j], want[j]),
                ));
            }
        }
        if !out.is_empty() {
            return out;
        }
    }
    out
}

// ---------------------------------------------------------------------------------------------
// C04  time priority: spec stamps, classified through the ticket model
// ---------------------------------------------------------------------------------------------

pub const SIG_K1: &str = "survivor-requeued-at-tail";
pub const SIG_K2: &str = "surplus-ticket-after-remove";

#[derive(Default, Debug)]
pub struct PrioOut {
    pub violations: Vec<Finding>,
    pub known: BTreeMap<&'static str, u64>,
    pub tx_judged: u64,
    pub pairs: u64,
    pub inversions: u64,
    /// the ticket model never had to be consulted
    pub spec_alone: bool,
    pub model_mismatches: u64,
}

pub fn priority(tr: &Trace) -> PrioOut {
    let mut out = PrioOut {
        spec_alone: true,
        ..Default::default()
    };
    let mut clock: u64 = 0;
    // spec stamps: (lo, hi)
    let mut stamp: HashMap<u128, (u64, u64)> = HashMap::new();
    let mut sim = Sim::new(tr.price);
    for o in &tr.initial.orders {
        clock += 1;
        stamp.insert(model::key(&model::id_of(o)), (clock, clock));
        sim.add(*o, clock);
    }
    for (i, r) in tr.recs.iter().enumerate() {
        clock += 1;
        match (&r.op, &r.res) {
            (HOp::Add(o), HRes::Added(_)) => {
                let k = model::key(&model::id_of(o));
                stamp.insert(k, (clock, clock));
                sim.add(*o, clock);
            }
            (HOp::Update(u), HRes::Updated(_)) => {
                sim.update(u, clock);
            }
            (HOp::Rebuild(_), _) => {
                // not part of C04's histories; restart both models from the listing
                stamp.clear();
                sim = Sim::new(tr.price);
                for o in &r.after.orders {
                    clock += 1;
                    stamp.insert(model::key(&model::id_of(o)), (clock, clock));
                    sim.add(*o, clock);
                }
            }
            (HOp::Match { qty, .. }, HRes::Matched(m)) => {
                let call_start = clock;
                // what the ticket model predicts for this call
                let mut sim_clock = clock;
                let (pred, _) = sim.do_match(*qty, &mut sim_clock);
                let txs = m.transactions.as_vec();
                let mut first_mismatch = usize::MAX;
                for j in 0..txs.len().max(pred.len()) {
                    let a = txs.get(j).map(|t| (model::key(&t.maker_order_id), t.quantity));
                    let b = pred.get(j).map(|p| (p.maker, p.qty));
                    if a != b {
                        first_mismatch = j;
                        break;
                    }
                }
                if first_mismatch != usize::MAX {
                    out.model_mismatches += 1;
                }
                // spec side: evolve the observed makers, check the stamp relation per transaction
                let mut st: HashMap<u128, Order> = r
                    .before
                    .orders
                    .iter()
                    .map(|o| (model::key(&model::id_of(o)), *o))
                    .collect();
                let mut rem = *qty;
                for (j, t) in txs.iter().enumerate() {
                    clock += 1;
                    let mk = model::key(&t.maker_order_id);
                    let mut cur = match st.get(&mk) {
                        Some(o) => *o,
                        None => break, // not resting: C02 reports it
                    };
                    if model::vis(&cur) == 0 {
                        // silently replenished at some unknown moment of this call
                        if let Fate::Stay(n) = model::spec_fill(&cur, rem).fate {
                            cur = n;
                            st.insert(mk, n);
                        }
                        stamp.insert(mk, (call_start, u64::MAX));
                    }
                    let sm = *stamp.entry(mk).or_insert((clock, clock));
                    out.tx_judged += 1;
                    for (ek, eo) in &st {
                        if *ek == mk || model::vis(eo) == 0 {
                            continue;
                        }
                        out.pairs += 1;
                        let se = *stamp.get(ek).unwrap_or(&(u64::MAX, u64::MAX));
                        if se.1 < sm.0 {
                            // M traded while an earlier-arrived order with displayed quantity waited
                            out.inversions += 1;
                            out.spec_alone = false;
                            let explained = j < first_mismatch && j < pred.len();
                            if !explained {
                                out.violations.push(f(
                                    i,
                                    format!(
                                        "tx #{}: {:x} (priority stamp {}) traded while {} (stamp {}) was waiting, and the queue mechanics of the known findings do not predict this maker",
                                        j,
                                        mk,
                                        sm.0,
                                        model::short(eo),
                                        se.1
                                    ),
                                ));
                            } else {
                                let p = &pred[j];
                                let e_tickets: Vec<u64> =
                                    p.tickets_before.iter().filter(|(k, _)| k == ek).map(|(_, t)| *t).collect();
                                let delayed = !e_tickets.is_empty() && e_tickets.iter().all(|t| *t > se.1);
                                let advanced = p.ticket_time < sm.0;
                                if delayed {
                                    *out.known.entry(SIG_K1).or_default() += 1;
                                }
                                if advanced {
                                    *out.known.entry(SIG_K2).or_default() += 1;
                                }
                                if !delayed && !advanced {
                                    out.violations.push(f(
                                        i,
                                        format!(
                                            "tx #{}: {:x} overtook {} and neither a delayed nor an advanced ticket explains it",
                                            j,
                                            mk,
                                            model::short(eo)
                                        ),
                                    ));
                                }
                            }
                        }
                    }
                    let s = model::spec_fill(&cur, rem);
                    rem = rem.saturating_sub(t.quantity);
                    match s.fate {
                        Fate::Stay(n) => {
                            st.insert(mk, n);
                            if s.replenished > 0 {
                                stamp.insert(mk, (clock, clock));
                            }
                        }
                        Fate::Leave { .. } => {
                            st.remove(&mk);
                            stamp.remove(&mk);
                        }
                    }
                }
                clock = clock.max(sim_clock) + 1;
                // close the intervals of silent replenishments; detect the unobserved ones
                for o in &r.after.orders {
                    let k = model::key(&model::id_of(o));
                    if let Some(s) = stamp.get_mut(&k) {
                        if s.1 == u64::MAX {
                            s.1 = clock;
                        }
                    }
                    if let Some(b) = r.before.find(k) {
                        let traded = txs.iter().any(|t| model::key(&t.maker_order_id) == k);
                        if !traded && model::hid(o) < model::hid(b) {
                            stamp.insert(k, (call_start, clock));
                        }
                    }
                }
                if first_mismatch != usize::MAX {
                    sim.resync(&r.after.orders, clock);
                }
            }
            _ => {}
        }
        // follow the observed presence of orders
        stamp.retain(|k, _| r.after.find(*k).is_some());
        for o in &r.after.orders {
            let k = model::key(&model::id_of(o));
            stamp.entry(k).or_insert((clock, clock));
        }
        // the ticket model's per-order states follow the observation too (positions do not)
        let same = sim.live.len() == r.after.orders.len()
            && r.after.orders.iter().all(|o| sim.live.get(&model::key(&model::id_of(o))) == Some(o));
        if !same {
            if !matches!(r.op, HOp::Match { .. }) {
                out.model_mismatches += 1;
            }
            sim.resync(&r.after.orders, clock);
        }
    }
    out
}

pub fn rec_has_zero_display(r: &Rec) -> bool {
    r.before.orders.iter().any(|o| model::vis(o) == 0)
}
