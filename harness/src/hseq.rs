//! H-seq — single-threaded history engine.
//!
//! A seeded, mode-biased generator produces operations *online* (looking at the level's current
//! listing), the runner applies each one to the real `PriceLevel` and records an observation
//! before and after it.  The recorded `Trace` is what the monitors (mon/*.rs) judge.

use crate::hook;
use crate::model::{self, Kind, Order, Params, KINDS};
use crate::obs::{observe, Obs};
use crate::rng::Rng;
use crate::sched::panic_message;
use pricelevel::{
    MatchResult, OrderId, OrderUpdate, PegReferenceType, PriceLevel, PriceLevelData, Side, TimeInForce,
    UuidGenerator,
};
use uuid::Uuid;

pub const N_READS: u8 = 10;
pub const N_ROUTES: u8 = 7;
pub const ROUTE_NAMES: [&str; 7] = [
    "from_snapshot",
    "from_snapshot_package",
    "from_snapshot_json",
    "From<&Snapshot>",
    "TryFrom<PriceLevelData>",
    "Display->FromStr",
    "serde_json",
];

#[derive(Clone, Debug)]
pub enum HOp {
    Add(Order),
    Match { qty: u64, taker: OrderId },
    Update(OrderUpdate),
    Read(u8),
    Rebuild(u8),
}

impl HOp {
    pub fn describe(&self) -> String {
        match self {
            HOp::Add(o) => format!("add {}", model::short(o)),
            HOp::Match { qty, .. } => format!("match {}", qty),
            HOp::Update(u) => format!("update {}", u),
            HOp::Read(k) => format!("read#{}", k),
            HOp::Rebuild(r) => format!("rebuild via {}", ROUTE_NAMES[*r as usize]),
        }
    }
    /// coarse operation class, for coverage cells
    pub fn class(&self) -> &'static str {
        match self {
            HOp::Add(_) => "add",
            HOp::Match { .. } => "match",
            HOp::Update(OrderUpdate::UpdatePrice { .. }) => "price",
            HOp::Update(OrderUpdate::UpdateQuantity { .. }) => "amend",
            HOp::Update(OrderUpdate::UpdatePriceAndQuantity { .. }) => "price+qty",
            HOp::Update(OrderUpdate::Cancel { .. }) => "cancel",
            HOp::Update(OrderUpdate::Replace { .. }) => "replace",
            HOp::Read(_) => "read",
            HOp::Rebuild(_) => "rebuild",
        }
    }
}

#[derive(Clone, Debug)]
pub enum HRes {
    Added(Order),
    Matched(MatchResult),
    Updated(Result<Option<Order>, String>),
    Read,
    Rebuilt(Result<(), String>),
    Panicked(String),
    /// step budget exceeded: the call did not return within the bound
    Overrun,
}

#[derive(Clone, Debug)]
pub struct Rec {
    pub op: HOp,
    pub before: Obs,
    pub res: HRes,
    pub after: Obs,
    pub steps: u64,
}

#[derive(Clone, Debug)]
pub struct Trace {
    pub price: u64,
    pub ns: Uuid,
    pub initial: Obs,
    pub recs: Vec<Rec>,
    /// the history was cut short (panic / overrun leaves the level in an unknown state)
    pub aborted: bool,
}

impl Trace {
    pub fn ops(&self) -> Vec<HOp> {
        self.recs.iter().map(|r| r.op.clone()).collect()
    }
    pub fn describe(&self) -> Vec<String> {
        let mut v = vec![format!("level price={}", self.price)];
        for r in &self.recs {
            let res = match &r.res {
                HRes::Added(_) => "ok".to_string(),
                HRes::Matched(m) => format!(
                    "txs=[{}] remaining={} filled={}",
                    m.transactions
                        .as_vec()
                        .iter()
                        .map(|t| format!("{:x}:{}", model::key(&t.maker_order_id) >> 64, t.quantity))
                        .collect::<Vec<_>>()
                        .join(","),
                    m.remaining_quantity,
                    m.filled_order_ids.len()
                ),
                HRes::Updated(Ok(Some(o))) => format!("-> {}", model::short(o)),
                HRes::Updated(Ok(None)) => "-> not found".into(),
                HRes::Updated(Err(e)) => format!("-> Err({})", e),
                HRes::Read => "".into(),
                HRes::Rebuilt(r) => format!("{:?}", r),
                HRes::Panicked(m) => format!("PANIC {}", m),
                HRes::Overrun => "STEP-BUDGET-OVERRUN".into(),
            };
            v.push(format!("{} {}", r.op.describe(), res));
        }
        v
    }
    pub fn hash(&self) -> u64 {
        let mut h = crate::rng::fnv(&self.price.to_le_bytes());
        for r in &self.recs {
            h = crate::rng::fnv_mix(h, crate::rng::fnv(r.op.describe().as_bytes()));
        }
        h
    }
}

/// System under test: one level + the transaction-id generator its matches use.
pub struct Sut {
    pub level: PriceLevel,
    pub idgen: UuidGenerator,
}

pub const CALL_BUDGET: u64 = 2_000_000;

impl Sut {
    pub fn new(price: u64, ns: Uuid) -> Self {
        hook::install();
        Sut {
            level: PriceLevel::new(price),
            idgen: UuidGenerator::new(ns),
        }
    }

    /// Applies one operation under the step counter.  Returns the result and the number of
    /// shared-memory steps the call took.
    pub fn apply(&mut self, op: &HOp) -> (HRes, u64) {
        hook::count_begin(CALL_BUDGET);
        let r = hook::quiet_catch(|| match op {
            HOp::Add(o) => {
                let a = self.level.add_order(*o);
                (HRes::Added(*a), None)
            }
            HOp::Match { qty, taker } => (HRes::Matched(self.level.match_order(*qty, *taker, &self.idgen)), None),
            HOp::Update(u) => {
                let r = self.level.update_order(*u);
                (
                    HRes::Updated(match r {
                        Ok(o) => Ok(o.map(|a| *a)),
                        Err(e) => Err(e.to_string()),
                    }),
                    None,
                )
            }
            HOp::Read(k) => {
                do_read(&self.level, *k);
                (HRes::Read, None)
            }
            HOp::Rebuild(route) => match rebuild(&self.level, *route) {
                Ok(l) => (HRes::Rebuilt(Ok(())), Some(l)),
                Err(e) => (HRes::Rebuilt(Err(e)), None),
            },
        });
        let steps = hook::count_end();
        match r {
            Ok((res, newlevel)) => {
                if let Some(l) = newlevel {
                    self.level = l;
                }
                (res, steps)
            }
            Err(p) => {
                let msg = panic_message(&*p);
                if msg == hook::OVERRUN_MSG {
                    (HRes::Overrun, steps)
                } else {
                    (HRes::Panicked(msg), steps)
                }
            }
        }
    }
}

/// Read-only calls (C07 purity).  Each returns nothing; what matters is that it ran.
pub fn do_read(level: &PriceLevel, k: u8) {
    match k % N_READS {
        0 => {
            let _ = level.iter_orders();
        }
        1 => {
            let _ = level.snapshot();
        }
        2 => {
            let _ = level.snapshot_package();
        }
        3 => {
            let _ = level.snapshot_to_json();
        }
        4 => {
            let _ = level.to_string();
        }
        5 => {
            let _ = serde_json::to_string(level);
        }
        6 => {
            let s = level.stats();
            let _ = (
                s.orders_added(),
                s.orders_removed(),
                s.orders_executed(),
                s.quantity_executed(),
                s.value_executed(),
                s.average_execution_price(),
                s.average_waiting_time(),
                s.time_since_last_execution(),
            );
        }
        7 => {
            let s = level.stats();
            let _ = s.to_string();
            let _ = serde_json::to_string(&*s);
        }
        8 => {
            let _ = PriceLevelData::from(level);
        }
        _ => {
            let _ = (
                level.price(),
                level.visible_quantity(),
                level.hidden_quantity(),
                level.order_count(),
            );
            let _ = hook::quiet_catch(|| level.total_quantity());
        }
    }
}

/// Rebuilds a level from its own external form through one of the seven routes.
pub fn rebuild(level: &PriceLevel, route: u8) -> Result<PriceLevel, String> {
    match route % N_ROUTES {
        0 => PriceLevel::from_snapshot(level.snapshot()).map_err(|e| e.to_string()),
        1 => {
            let p = level.snapshot_package().map_err(|e| e.to_string())?;
            PriceLevel::from_snapshot_package(p).map_err(|e| e.to_string())
        }
        2 => {
            let j = level.snapshot_to_json().map_err(|e| e.to_string())?;
            PriceLevel::from_snapshot_json(&j).map_err(|e| e.to_string())
        }
        3 => Ok(PriceLevel::from(&level.snapshot())),
        4 => PriceLevel::try_from(PriceLevelData::from(level)).map_err(|e| e.to_string()),
        5 => level.to_string().parse::<PriceLevel>().map_err(|e| e.to_string()),
        _ => {
            let j = serde_json::to_string(level).map_err(|e| e.to_string())?;
            serde_json::from_str::<PriceLevel>(&j).map_err(|e| e.to_string())
        }
    }
}

// ---------------------------------------------------------------------------------------------
// Generator
// ---------------------------------------------------------------------------------------------

#[derive(Clone, Copy, Debug, PartialEq, Eq)]
pub enum TsMode {
    Increasing,
    Ties,
    NonMonotone,
}

#[derive(Clone, Debug)]
pub struct GenCfg {
    pub name: &'static str,
    pub len: (usize, usize),
    pub kind_w: [u32; 7],
    /// add, match, cancel, amend, price+qty, replace, price, read, rebuild
    pub op_w: [u32; 9],
    pub qmax: u64,
    pub zero_pct: u32,
    /// probability (percent) that a layered order has nothing hidden (None: zero_pct + 5)
    pub hid_zero_pct: Option<u32>,
    /// percentage of orders whose own price differs from the level's (nothing enforces equality)
    pub off_price_pct: u32,
    /// match quantities are sums of the displayed quantities of a prefix of the arrival order
    pub exact_fills: bool,
    pub reuse_ids: bool,
    pub ts: TsMode,
    pub absent_pct: u32,
    pub same_price_pct: u32,
    pub max_resting: usize,
    /// boundary magnitudes: price 1, a few huge orders
    pub big: bool,
    /// number of orders added before the mixed part starts
    pub preload: (usize, usize),
    /// append a draining match at the end of the history
    pub final_drain: bool,
    /// scale tier this configuration was stretched to ("" = the mode as written)
    pub scale: &'static str,
    /// first timestamp of the increasing mode (stretched to just below 2^41 / 2^48 / 2^53 / 2^63 /
    /// 2^64 for one case in 8, so that a history straddles the boundary)
    pub ts_base: u64,
    /// multiplier of every generated quantity (1, or a mid magnitude for one case in 8: between
    /// the small values of the ordinary modes and the 2^32.. values of the big mode)
    pub qscale: u64,
    /// level price beyond 2^53 (one short-history case in 16); the quantity supplied to such a
    /// level is kept so small that quantity x price still fits in 64 bits
    pub high_price: Option<u64>,
}

impl GenCfg {
    pub fn base(name: &'static str) -> Self {
        GenCfg {
            name,
            len: (4, 40),
            kind_w: [3, 3, 2, 2, 2, 2, 3],
            op_w: [30, 30, 8, 10, 4, 4, 4, 0, 0],
            qmax: 20,
            zero_pct: 3,
            hid_zero_pct: None,
            off_price_pct: 0,
            exact_fills: false,
            reuse_ids: true,
            ts: TsMode::Increasing,
            absent_pct: 15,
            same_price_pct: 60,
            max_resting: 8,
            big: false,
            preload: (0, 3),
            final_drain: false,
            scale: "",
            ts_base: 1_000,
            qscale: 1,
            high_price: None,
        }
    }

    /// Scale tiers, orthogonal to the modes: one case in 16 starts from 33-200 resting orders
    /// (past a 31-slot queue block, past the map's first growth steps), one in 256 from 260-1100
    /// (past 2^8, 2^9, 2^10, 1000), one in 256 runs 1500-4000 operations on a small level.  The
    /// tier is a function of (seed, case) alone, so a replay regenerates the same history.
    pub fn scaled(&self, seed: u64, case: u64) -> GenCfg {
        let mut c = self.clone();
        if self.big || self.scale == "fixed" {
            return c;
        }
        let mut r = Rng::derive(seed ^ 0x5ca1_e5ca_1e, case);
        if r.chance(1, 8) {
            c.ts_base = *r.pick(&[(1u64 << 41) - 35, (1 << 48) - 35, (1 << 53) - 35, (1 << 63) - 35, u64::MAX - 200_000]);
        }
        if self.len.1 <= 80 && r.chance(1, 16) {
            c.high_price = Some(*r.pick(&[(1u64 << 53) + 1, (1 << 53) + 2, (1 << 54) + 3, (1 << 56) - 1]));
            c.qmax = c.qmax.min(6);
            c.scale = "level price beyond 2^53";
            return c;
        }
        let mid = r.chance(1, 8);
        let tier = if mid { 255 } else { r.below(256) };
        if mid {
            // (not combined with the wide tiers: hundreds of layered orders with thousands of
            // replenishment rounds each would exceed the step budget of a legitimate sweep)
            c.qscale = *r.pick(&[7u64, 50, 100, 1_000, 65_536, 1 << 27]);
            c.scale = "mid-magnitude quantities";
        }
        match tier {
            0 => {
                let n = *r.pick(&[260usize, 300, 511, 512, 513, 700, 999, 1000, 1001, 1023, 1024, 1025, 1100]);
                c.preload = (n, n);
                c.max_resting = n + 40;
                c.len = (c.len.0.min(20), c.len.1.min(40));
                c.scale = "xwide(260-1100 resting)";
            }
            1..=16 => {
                let n = match r.below(4) {
                    0 => *r.pick(&[31usize, 32, 33, 63, 64, 65, 99, 100, 101, 127, 128, 129]),
                    _ => r.range(33, 200) as usize,
                };
                c.preload = (n, n);
                c.max_resting = n + 30;
                c.len = (c.len.0.min(30), c.len.1.min(80));
                c.scale = "wide(31-200 resting)";
            }
            17 => {
                c.len = (1500, 9000);
                c.max_resting = c.max_resting.min(6);
                c.preload = (0, 3);
                c.scale = "marathon(1500-9000 operations)";
            }
            _ => {}
        }
        c
    }
}

pub struct Gen {
    pub cfg: GenCfg,
    pub rng: Rng,
    pub price: u64,
    next_id: u64,
    retired: Vec<u64>,
    ts_ctr: u64,
    /// clean-mode bookkeeping: ids in the order the statement says they should trade
    arrival: Vec<u128>,
    supplied: u128,
    side: Side,
    /// every order draws its own side (a level normally holds one side; nothing enforces it)
    mixed_sides: bool,
}

const TIFS: [TimeInForce; 5] = [
    TimeInForce::Gtc,
    TimeInForce::Ioc,
    TimeInForce::Fok,
    TimeInForce::Day,
    TimeInForce::Gtd(1_700_000_000),
];

impl Gen {
    pub fn new(cfg: GenCfg, mut rng: Rng) -> Self {
        let price = if cfg.big {
            1
        } else if let Some(p) = cfg.high_price {
            p
        } else {
            *rng.pick(&[1u64, 2, 7, 100, 101, 9_999, 10_000])
        };
        let side = if rng.chance(1, 2) { Side::Buy } else { Side::Sell };
        let mixed_sides = rng.chance(1, 4);
        Gen {
            cfg,
            rng,
            price,
            next_id: 1,
            retired: Vec::new(),
            ts_ctr: 0,
            arrival: Vec::new(),
            supplied: 0,
            side,
            mixed_sides,
        }
    }

    fn qty(&mut self) -> u64 {
        if self.cfg.big {
            let base = *self.rng.pick(&[1u64 << 32, 1 << 53, (1 << 53) + 1, 1 << 59, (1 << 60) - 1, 1 << 60, 1 << 63, (1 << 63) + 1_000]);
            return base;
        }
        if self.rng.below(100) < self.cfg.zero_pct as u64 {
            return 0;
        }
        let q = if self.rng.chance(2, 3) {
            self.rng.range(1, 10.min(self.cfg.qmax))
        } else {
            self.rng.range(1, self.cfg.qmax)
        };
        if self.cfg.qscale > 1 {
            // not only multiples of the scale
            q * self.cfg.qscale + if self.rng.chance(1, 2) { self.rng.below(self.cfg.qscale) } else { 0 }
        } else {
            q
        }
    }

    fn ts(&mut self) -> u64 {
        self.ts_ctr += 1;
        match self.cfg.ts {
            TsMode::Increasing => self.cfg.ts_base.saturating_add(10 * self.ts_ctr),
            TsMode::Ties => 1_000 + self.rng.below(3),
            TsMode::NonMonotone => self.rng.range(0, 50),
        }
    }

    pub fn new_order(&mut self, resting: &Obs) -> Option<Order> {
        // id: fresh, or (reuse mode) one that was resting earlier and is not resting now
        let idn = if self.cfg.reuse_ids && !self.retired.is_empty() && self.rng.chance(1, 2) {
            let i = self.rng.usize_below(self.retired.len());
            let n = self.retired[i];
            if resting.find(model::key(&model::oid(n))).is_some() {
                self.fresh_id()
            } else {
                n
            }
        } else {
            self.fresh_id()
        };
        let kind = KINDS[self.rng.weighted(&self.cfg.kind_w)];
        let mut v = self.qty();
        let h = if kind.layered() {
            if self.cfg.big {
                // keep the number of replenishment rounds of a legitimate match small:
                // the displayed part is at least an eighth of the hidden part
                if kind == Kind::Iceberg {
                    // an iceberg's tranche shrinks with every partial fill, so a huge hidden part
                    // can need ~2^60 rounds: keep the hidden part small, the display huge
                    *self.rng.pick(&[0u64, 1, 2, 3, 100, 1000])
                } else {
                    let h = self.qty();
                    v = (h / (1 + self.rng.below(8))).max(1);
                    h
                }
            } else if self.rng.below(100) < self.cfg.hid_zero_pct.map(|x| x as u64).unwrap_or(self.cfg.zero_pct as u64 + 5) {
                0
            } else if self.cfg.qscale > 1 {
                // mid magnitudes: keep the number of replenishment rounds of a legitimate match
                // small (a tranche can shrink to 1): display and hidden part at most a few thousand,
                // hidden parts close to the display (just above, within 1 %, double, half)
                v = v.min(1_500).max(1);
                let pick = *self.rng.pick(&[1u64, v / 2, v, v + 1, v + v / 150 + 1, v + v / 100, 2 * v + 3, 200, 1_000]);
                pick.clamp(1, 2_000)
            } else {
                *self.rng.pick(&[1u64, 2, 3, 5, 8, 13, 21, 79, 80, 81, 200])
            }
        } else {
            0
        };
        let sup = v as u128 + h as u128;
        // everything ever supplied to one level stays below 2^64 (the statistics accumulate it);
        // the big mode goes right up to that, the others keep well away
        let limit = if self.cfg.big {
            (1u128 << 64) - (1u128 << 40)
        } else if self.cfg.high_price.is_some() {
            // a quarter of what fits, the rest is headroom for amendments upwards
            (u64::MAX / self.price / 4) as u128
        } else {
            1u128 << 62
        };
        if self.supplied + sup > limit {
            return None;
        }
        self.supplied += sup;
        let mut p = Params::default();
        if self.cfg.big {
            p.thr = *self.rng.pick(&[0, 1, 1 << 40]);
            p.amt = *self.rng.pick(&[Some(h / 3 + 1), Some(1 << 58), Some(u64::MAX)]);
        } else {
            p.thr = *self.rng.pick(&[0u64, 0, 1, 2, 3, 5, 10]);
            p.amt = *self.rng.pick(&[None, None, Some(0), Some(1), Some(2), Some(3), Some(7), Some(79), Some(80), Some(81), Some(100)]);
        }
        p.auto = self.rng.chance(3, 4);
        p.trail = self.rng.below(20);
        p.lastref = self.rng.below(20_000);
        p.peg_off = self.rng.below(21) as i64 - 10;
        p.peg_ref = *self.rng.pick(&[
            PegReferenceType::BestBid,
            PegReferenceType::BestAsk,
            PegReferenceType::MidPrice,
            PegReferenceType::LastTrade,
        ]);
        let tif = *self.rng.pick(&TIFS);
        let ts = self.ts();
        let id = model::oid(idn);
        self.arrival.push(model::key(&id));
        let side = if self.mixed_sides {
            if self.rng.chance(1, 2) {
                Side::Buy
            } else {
                Side::Sell
            }
        } else {
            self.side
        };
        let oprice = if self.cfg.off_price_pct > 0 && self.rng.below(100) < self.cfg.off_price_pct as u64 {
            self.price + 1 + self.rng.below(7)
        } else {
            self.price
        };
        Some(model::mk(kind, id, oprice, v, h, side, ts, tif, &p))
    }

    /// make the next fresh id at least `n` (continuations must not collide with earlier ids)
    pub fn skip_ids(&mut self, n: u64) {
        self.next_id = self.next_id.max(n);
    }

    fn fresh_id(&mut self) -> u64 {
        let n = self.next_id;
        self.next_id += 1;
        n
    }

    fn target(&mut self, obs: &Obs) -> OrderId {
        if obs.orders.is_empty() || self.rng.below(100) < self.cfg.absent_pct as u64 {
            // absent: never used, or used earlier and gone
            if !self.retired.is_empty() && self.rng.chance(1, 2) {
                let n = *self.rng.pick(&self.retired);
                return model::oid(n);
            }
            return model::oid(1_000_000 + self.rng.below(1000));
        }
        model::id_of(self.rng.pick(&obs.orders))
    }

    fn other_price(&mut self) -> u64 {
        if self.rng.below(100) < self.cfg.same_price_pct as u64 {
            self.price
        } else if self.rng.chance(1, 2) {
            self.price + 1 + self.rng.below(5)
        } else {
            self.price.saturating_sub(1 + self.rng.below(5)).max(if self.price > 1 { 1 } else { 2 })
        }
    }

    fn amend_qty(&mut self, obs: &Obs, id: &OrderId) -> u64 {
        if self.cfg.big {
            // keep tranches of layered orders within a factor 8 of their hidden part
            let h = obs.find(model::key(id)).map(model::hid).unwrap_or(0);
            let cur = obs.find(model::key(id)).map(model::vis).unwrap_or(0);
            // a third of the amendments stay close to the current quantity (a small reduction
            // or increase of a huge order)
            let q = match self.rng.below(3) {
                0 if cur > 2_000 => {
                    let near = if self.rng.chance(2, 3) { cur - self.rng.range(1, 1_000) } else { cur.saturating_add(self.rng.range(1, 1_000)) };
                    if near <= cur {
                        return near.max(h / 8).max(1);
                    }
                    near
                }
                _ => (self.qty() / 2).max(h / 8),
            };
            // an amendment upwards supplies quantity too
            if self.supplied + q as u128 > (1u128 << 64) - (1u128 << 40) {
                return (h / 8).max(1);
            }
            self.supplied += q as u128;
            return q;
        }
        if self.rng.below(100) < (self.cfg.zero_pct as u64 * 2).min(40) {
            0
        } else if self.cfg.qscale > 1 {
            let layered = obs.find(model::key(id)).map(|o| model::hid(o) > 0).unwrap_or(false);
            let q = self.rng.range(1, self.cfg.qmax + 5) * self.cfg.qscale + self.rng.below(self.cfg.qscale);
            if layered {
                q.min(1_500)
            } else {
                q
            }
        } else {
            self.rng.range(1, self.cfg.qmax + 5)
        }
    }

    fn match_qty(&mut self, obs: &Obs) -> u64 {
        let sumv: u128 = obs.sum_vis();
        let tot: u128 = sumv + obs.sum_hid();
        if self.cfg.exact_fills {
            // sum of displayed quantity over a prefix of the arrival order
            let live: Vec<u128> = self
                .arrival
                .iter()
                .copied()
                .filter(|k| obs.find(*k).is_some())
                .collect();
            if live.is_empty() {
                return 1 + self.rng.below(5);
            }
            let k = 1 + self.rng.usize_below(live.len());
            let q: u128 = live[..k].iter().map(|id| model::vis(obs.find(*id).unwrap()) as u128).sum();
            return (q.min(u64::MAX as u128) as u64).max(1);
        }
        let cap = |x: u128| -> u64 { x.min(u64::MAX as u128 / 2).max(1) as u64 };
        if self.rng.chance(1, 40) {
            // far more than the level holds: u64::MAX and the values where products with the
            // price or conversions to other number types go wrong
            return *self.rng.pick(&[u64::MAX, u64::MAX - 1, u64::MAX / 2 + 1, 1 << 63, (1 << 53) + 1, 1 << 32, u64::MAX / 7]);
        }
        match self.rng.below(10) {
            0..=3 => {
                // small: around one order's display
                let d = obs
                    .orders
                    .first()
                    .map(|o| model::vis(o))
                    .unwrap_or(3)
                    .max(1);
                if self.cfg.big {
                    cap(d as u128 / 2 + self.rng.below(3) as u128)
                } else {
                    self.rng.range(1, d.saturating_mul(2).max(2))
                }
            }
            4..=5 => {
                if self.cfg.big {
                    cap(sumv / 2 + 1)
                } else {
                    self.rng.range(1, cap(sumv + 1))
                }
            }
            6..=7 => {
                // sweeps into hidden quantity
                if self.cfg.big {
                    cap(tot.saturating_sub(1))
                } else {
                    self.rng.range(1, cap(tot + 1))
                }
            }
            8 => cap(tot),
            _ => cap(tot + 1 + self.rng.below(10) as u128),
        }
    }

    /// the arrival bookkeeping of the clean mode, kept up to date from what was observed
    pub fn note(&mut self, rec: &Rec) {
        // ids that are gone can be re-used
        for o in &rec.before.orders {
            let k = model::key(&model::id_of(o));
            if rec.after.find(k).is_none() {
                if let Some(n) = id_number(k) {
                    if !self.retired.contains(&n) {
                        self.retired.push(n);
                    }
                }
            }
        }
        if let HRes::Matched(m) = &rec.res {
            // makers that traded and are still there after a replenishment move to the back
            for t in m.transactions.as_vec() {
                let k = model::key(&t.maker_order_id);
                if let (Some(b), Some(a)) = (rec.before.find(k), rec.after.find(k)) {
                    if model::hid(a) < model::hid(b) {
                        if let Some(p) = self.arrival.iter().position(|x| *x == k) {
                            let x = self.arrival.remove(p);
                            self.arrival.push(x);
                        }
                    }
                }
            }
        }
        self.arrival.retain(|k| rec.after.find(*k).is_some());
    }

    pub fn next_op(&mut self, obs: &Obs) -> HOp {
        loop {
            let mut w = self.cfg.op_w;
            if obs.orders.len() >= self.cfg.max_resting {
                w[0] = 0;
            }
            if obs.orders.is_empty() {
                w[1] = w[1].min(3);
            }
            let k = self.rng.weighted(&w);
            match k {
                0 => {
                    if let Some(o) = self.new_order(obs) {
                        return HOp::Add(o);
                    }
                    return HOp::Match {
                        qty: self.match_qty(obs),
                        taker: model::oid(5_000_000 + self.rng.below(1 << 20)),
                    };
                }
                1 => {
                    return HOp::Match {
                        qty: self.match_qty(obs),
                        taker: model::oid(5_000_000 + self.rng.below(1 << 20)),
                    }
                }
                2 => {
                    return HOp::Update(OrderUpdate::Cancel {
                        order_id: self.target(obs),
                    })
                }
                3 => {
                    let id = self.target(obs);
                    return HOp::Update(OrderUpdate::UpdateQuantity {
                        order_id: id,
                        new_quantity: self.amend_qty(obs, &id),
                    });
                }
                4 => {
                    let id = self.target(obs);
                    return HOp::Update(OrderUpdate::UpdatePriceAndQuantity {
                        order_id: id,
                        new_price: self.other_price(),
                        new_quantity: self.amend_qty(obs, &id),
                    });
                }
                5 => {
                    let id = self.target(obs);
                    return HOp::Update(OrderUpdate::Replace {
                        order_id: id,
                        price: self.other_price(),
                        quantity: self.amend_qty(obs, &id),
                        side: if self.rng.chance(1, 2) { Side::Buy } else { Side::Sell },
                    })
                }
                6 => {
                    return HOp::Update(OrderUpdate::UpdatePrice {
                        order_id: self.target(obs),
                        new_price: self.other_price(),
                    })
                }
                7 => return HOp::Read(self.rng.below(N_READS as u64) as u8),
                _ => return HOp::Rebuild(self.rng.below(N_ROUTES as u64) as u8),
            }
        }
    }
}

/// inverse of `model::oid` for the ids the generator makes
pub fn id_number(k: u128) -> Option<u64> {
    let hi = (k >> 64) as u64;
    let lo = k as u64;
    if lo & 0xffff_0000_0000_0000 == 0x5eed_0000_0000_0000 || (lo >> 48) == 0x5eed {
        // ULID form: n in the high half
        return Some(hi);
    }
    if lo == 0 && hi >= 0x0100_0000_0000_0000 {
        return Some(hi - 0x0100_0000_0000_0000);
    }
    None
}

/// Generates a history online against a fresh level and records it.
pub fn gen_and_run(cfg: &GenCfg, rng: Rng) -> Trace {
    gen_and_run_sut(cfg, rng).0
}

/// Continues an existing level online for `n` more operations (C11 continuations).
pub fn continue_run(g: &mut Gen, sut: &mut Sut, n: usize, final_drain: bool) -> Trace {
    let mut tr = Trace {
        price: g.price,
        ns: Uuid::nil(),
        initial: observe(&sut.level),
        recs: Vec::with_capacity(n + 1),
        aborted: false,
    };
    let mut before = tr.initial.clone();
    let total = n + if final_drain { 1 } else { 0 };
    for i in 0..total {
        let op = if final_drain && i + 1 == total {
            HOp::Match {
                qty: u64::MAX / 4,
                taker: model::oid(9_999_999),
            }
        } else {
            g.next_op(&before)
        };
        let (res, steps) = sut.apply(&op);
        let bad = matches!(res, HRes::Panicked(_) | HRes::Overrun);
        let after = observe(&sut.level);
        let rec = Rec {
            op,
            before,
            res,
            after: after.clone(),
            steps,
        };
        g.note(&rec);
        tr.recs.push(rec);
        before = after;
        if bad {
            tr.aborted = true;
            break;
        }
    }
    tr
}

/// Replays operations on an existing system under test.
pub fn replay_on(sut: &mut Sut, ops: &[HOp]) -> Trace {
    let mut tr = Trace {
        price: sut.level.price(),
        ns: Uuid::nil(),
        initial: observe(&sut.level),
        recs: Vec::with_capacity(ops.len()),
        aborted: false,
    };
    let mut before = tr.initial.clone();
    for op in ops {
        let (res, steps) = sut.apply(op);
        let bad = matches!(res, HRes::Panicked(_) | HRes::Overrun);
        let after = observe(&sut.level);
        tr.recs.push(Rec {
            op: op.clone(),
            before,
            res,
            after: after.clone(),
            steps,
        });
        before = after;
        if bad {
            tr.aborted = true;
            break;
        }
    }
    tr
}

pub fn gen_and_run_sut(cfg: &GenCfg, rng: Rng) -> (Trace, Sut, Gen) {
    let mut g = Gen::new(cfg.clone(), rng);
    let ns = Uuid::from_u128(g.rng.next_u64() as u128 | ((g.rng.next_u64() as u128) << 64));
    let mut sut = Sut::new(g.price, ns);
    let n_ops = g.rng.range(cfg.len.0 as u64, cfg.len.1 as u64) as usize;
    let n_pre = g.rng.range(cfg.preload.0 as u64, cfg.preload.1 as u64) as usize;
    let mut tr = Trace {
        price: g.price,
        ns,
        initial: observe(&sut.level),
        recs: Vec::with_capacity(n_ops + n_pre),
        aborted: false,
    };
    let mut before = tr.initial.clone();
    let n_all = n_ops + n_pre + if cfg.final_drain { 1 } else { 0 };
    for i in 0..n_all {
        let op = if cfg.final_drain && i + 1 == n_all {
            HOp::Match {
                qty: u64::MAX / 4,
                taker: model::oid(9_999_999),
            }
        } else if i < n_pre {
            match g.new_order(&before) {
                Some(o) => HOp::Add(o),
                None => g.next_op(&before),
            }
        } else {
            g.next_op(&before)
        };
        let (res, steps) = sut.apply(&op);
        let bad = matches!(res, HRes::Panicked(_) | HRes::Overrun);
        let after = observe(&sut.level);
        let rec = Rec {
            op,
            before,
            res,
            after: after.clone(),
            steps,
        };
        g.note(&rec);
        tr.recs.push(rec);
        before = after;
        if bad {
            tr.aborted = true;
            break;
        }
    }
    (tr, sut, g)
}

/// Replays a fixed operation list on a fresh level (twin runs).  `extra` is called before each
/// operation with the level (used to inject read-only calls on one twin).
pub fn replay(price: u64, ns: Uuid, ops: &[HOp], extra: &mut dyn FnMut(usize, &PriceLevel)) -> Trace {
    let mut sut = Sut::new(price, ns);
    let mut tr = Trace {
        price,
        ns,
        initial: observe(&sut.level),
        recs: Vec::with_capacity(ops.len()),
        aborted: false,
    };
    let mut before = tr.initial.clone();
    for (i, op) in ops.iter().enumerate() {
        hook::mute(|| extra(i, &sut.level));
        let (res, steps) = sut.apply(op);
        let bad = matches!(res, HRes::Panicked(_) | HRes::Overrun);
        let after = observe(&sut.level);
        tr.recs.push(Rec {
            op: op.clone(),
            before,
            res,
            after: after.clone(),
            steps,
        });
        before = after;
        if bad {
            tr.aborted = true;
            break;
        }
    }
    tr
}

/// Replays a fixed operation list on a fresh level WITHOUT taking any observation between the
/// operations: the level receives no read-only call at all until the end (C07 purity baseline).
pub fn replay_blind(price: u64, ns: Uuid, ops: &[HOp]) -> (Vec<HRes>, Obs) {
    let mut sut = Sut::new(price, ns);
    let mut out = Vec::with_capacity(ops.len());
    for op in ops {
        if matches!(op, HOp::Read(_)) {
            out.push(HRes::Read);
            continue;
        }
        let (res, _) = sut.apply(op);
        let bad = matches!(res, HRes::Panicked(_) | HRes::Overrun);
        out.push(res);
        if bad {
            break;
        }
    }
    let fin = observe(&sut.level);
    (out, fin)
}

pub fn kind_cells(tr: &Trace, cells: &mut std::collections::BTreeMap<String, u64>) {
    for r in &tr.recs {
        let cls = r.op.class();
        let kinds: Vec<Kind> = match &r.op {
            HOp::Add(o) => vec![model::kind_of(o)],
            HOp::Update(u) => {
                let id = match u {
                    OrderUpdate::UpdatePrice { order_id, .. }
                    | OrderUpdate::UpdateQuantity { order_id, .. }
                    | OrderUpdate::UpdatePriceAndQuantity { order_id, .. }
                    | OrderUpdate::Cancel { order_id }
                    | OrderUpdate::Replace { order_id, .. } => *order_id,
                };
                r.before.find(model::key(&id)).map(model::kind_of).into_iter().collect()
            }
            HOp::Match { .. } => {
                if let HRes::Matched(m) = &r.res {
                    m.transactions
                        .as_vec()
                        .iter()
                        .filter_map(|t| r.before.find(model::key(&t.maker_order_id)).map(model::kind_of))
                        .collect()
                } else {
                    vec![]
                }
            }
            _ => vec![],
        };
        if kinds.is_empty() {
            *cells.entry(format!("{}/-", cls)).or_default() += 1;
        }
        for k in kinds {
            *cells.entry(format!("{}/{}", cls, k.name())).or_default() += 1;
        }
    }
}
