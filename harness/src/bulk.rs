//! Sparse-observation bulk scenarios (scale tier of the sequential checks).
//!
//! The history engine observes the level before and after every operation and therefore never
//! has more than a dozen-odd hundred orders resting or more than one mutation between two
//! listings.  These scenarios go the other way: tens to tens of thousands of orders are added
//! (and partly cancelled) *without* looking, then the level is observed, mutated blindly again
//! (the number of mutations between two listings crosses 2^8 / 2^16), observed again, restored
//! through a snapshot route and finally drained next to its restored twin.  Only order types
//! that trade completely in one fill are used and no id is ever re-added, so the oracle is
//! exact: the resting set is known by construction, a drain trades every resting order once,
//! completely, in arrival order (no room for the known findings K1-K3), and the restored twin
//! must do the same.
//!
//! One case yields findings tagged with the property they refute; each check keeps its own.

use crate::hseq;
use crate::model::{self, Kind, Order};
use crate::obs::{observe, Obs};
use crate::report::{ncpu, parallel, Report};
use crate::rng::Rng;
use pricelevel::{OrderUpdate, PriceLevel, Side, TimeInForce, UuidGenerator};
use serde_json::json;
use uuid::Uuid;

const PLAIN: [Kind; 5] = [Kind::Standard, Kind::PostOnly, Kind::Trailing, Kind::Pegged, Kind::M2L];

pub struct BulkOut {
    pub findings: Vec<(&'static str, String)>,
    pub orders: usize,
    pub blind_mutations: usize,
    pub transactions: usize,
    pub describe: String,
}

fn agg_findings(tag: &str, o: &Obs, want: &[Order], out: &mut Vec<(&'static str, String)>) {
    let sum: u128 = want.iter().map(|x| model::vis(x) as u128).sum();
    if o.count != want.len() || o.orders.len() != want.len() {
        out.push((
            "C01",
            format!("{}: order_count {} / listing of {} orders, but {} orders are resting", tag, o.count, o.orders.len(), want.len()),
        ));
    }
    if o.vis as u128 != sum || o.hid != 0 {
        out.push(("C01", format!("{}: visible_quantity {} hidden {} but the resting orders display {}", tag, o.vis, o.hid, sum)));
    }
    if o.snap != [o.vis, o.hid, o.count as u64, o.orders.len() as u64] {
        out.push(("C01", format!("{}: snapshot aggregate fields {:?} differ from the level's {} {} {}", tag, o.snap, o.vis, o.hid, o.count)));
    }
    // the listing is exactly the resting set, field for field (timestamps are unique: the
    // listing order is determined)
    let mut w: Vec<Order> = want.to_vec();
    w.sort_by_key(|x| model::ts_of(x));
    if o.orders != w {
        let first = o.orders.iter().zip(w.iter()).position(|(a, b)| a != b).unwrap_or(o.orders.len().min(w.len()));
        out.push((
            "C10",
            format!(
                "{}: the listing ({} orders) is not the resting set in timestamp order ({} orders); first difference at position {}",
                tag,
                o.orders.len(),
                w.len(),
                first
            ),
        ));
    }
}

pub fn bulk_case(seed: u64, case: u64) -> BulkOut {
    let mut rng = Rng::derive(seed ^ 0xb01c, case);
    // (the size classes rotate with the case number: every 16 consecutive cases cover all of them)
    let n = match case % 16 {
        0 => *rng.pick(&[65_535usize, 65_536, 65_537, 70_000]),
        1..=4 => *rng.pick(&[4_095usize, 4_096, 4_097, 5_000, 8_192, 8_193, 10_000]),
        5..=9 => *rng.pick(&[255usize, 256, 257, 511, 512, 513, 1_000, 1_023, 1_024, 1_025, 2_000]),
        _ => *rng.pick(&[31usize, 32, 33, 63, 64, 65, 100, 127, 128, 129]),
    };
    // blind mutations between the first and the second listing
    let k = match (case / 2) % 6 {
        0 => *rng.pick(&[65_535usize, 65_536, 65_537, 131_072]),
        1 => *rng.pick(&[255usize, 256, 257, 1_024, 4_096]),
        _ => rng.range(1, 200) as usize,
    };
    let price = *rng.pick(&[1u64, 7, 100, 10_000]);
    let ts_base = *rng.pick(&[1_000u64, 1_000, (1 << 41) - 50, (1 << 48) - 50, (1 << 53) - 50, (1 << 63) - 50]);
    let qmax = *rng.pick(&[5u64, 20, 1_000, 1 << 20]);
    let cancel_pct = *rng.pick(&[0u64, 0, 10, 50, 90]);
    let route = rng.below(4) as u8;
    let describe = format!(
        "bulk case {}: {} orders (price {}, quantities 1..={}, timestamps from {}), {}% cancelled blind, listing, {} blind mutations, listing, restore via {}, both drained",
        case,
        n,
        price,
        qmax,
        ts_base,
        cancel_pct,
        k,
        hseq::ROUTE_NAMES[route as usize]
    );
    let mut out = BulkOut {
        findings: Vec::new(),
        orders: n,
        blind_mutations: k,
        transactions: 0,
        describe,
    };
    crate::hook::install();
    let r = crate::hook::quiet_catch(|| {
        let mut findings: Vec<(&'static str, String)> = Vec::new();
        let level = PriceLevel::new(price);
        let idgen = UuidGenerator::new(Uuid::from_u128(0xb01c ^ case as u128));
        let mut next = 0u64;
        let mut resting: Vec<Order> = Vec::new(); // arrival order
        let add = |level: &PriceLevel, resting: &mut Vec<Order>, next: &mut u64, rng: &mut Rng| {
            *next += 1;
            let o = model::mk(
                *rng.pick(&PLAIN),
                model::oid(*next),
                price,
                rng.range(1, qmax),
                0,
                Side::Sell,
                ts_base + 3 * *next,
                TimeInForce::Gtc,
                &model::Params::default(),
            );
            level.add_order(o);
            resting.push(o);
        };
        // cancels leave a tombstone (quantity-less marker) that is compacted away before the next
        // comparison: removing from the middle of a 65 000-element vector 60 000 times is quadratic
        let mut dead: Vec<bool> = Vec::new();
        let cancel = |level: &PriceLevel, resting: &Vec<Order>, dead: &mut Vec<bool>, i: usize, findings: &mut Vec<(&'static str, String)>| {
            let o = resting[i];
            dead[i] = true;
            match level.update_order(OrderUpdate::Cancel { order_id: model::id_of(&o) }) {
                Ok(Some(a)) if *a == o => {}
                other => findings.push((
                    "C07",
                    format!("cancel of resting {} returned {:?}", model::short(&o), other.map(|x| x.map(|a| a.to_string()))),
                )),
            }
        };
        let pick_live = |dead: &Vec<bool>, how: u64, rng: &mut Rng| -> Option<usize> {
            match how {
                0 => dead.iter().position(|d| !*d),
                1 => dead.iter().rposition(|d| !*d),
                _ => {
                    for _ in 0..64 {
                        let i = rng.usize_below(dead.len());
                        if !dead[i] {
                            return Some(i);
                        }
                    }
                    dead.iter().position(|d| !*d)
                }
            }
        };
        let compact = |resting: &mut Vec<Order>, dead: &mut Vec<bool>| {
            let mut i = 0;
            resting.retain(|_| {
                i += 1;
                !dead[i - 1]
            });
            dead.clear();
            dead.resize(resting.len(), false);
        };
        for _ in 0..n {
            add(&level, &mut resting, &mut next, &mut rng);
        }
        dead.resize(resting.len(), false);
        if cancel_pct > 0 {
            // from the front, from the back, or scattered
            let m = resting.len() * cancel_pct as usize / 100;
            let how = rng.below(3);
            let mut front = 0usize;
            let mut back = resting.len();
            for _ in 0..m {
                let i = match how {
                    0 => {
                        front += 1;
                        front - 1
                    }
                    1 => {
                        back -= 1;
                        back
                    }
                    _ => match pick_live(&dead, 2, &mut rng) {
                        Some(i) => i,
                        None => break,
                    },
                };
                cancel(&level, &resting, &mut dead, i, &mut findings);
            }
        }
        compact(&mut resting, &mut dead);
        let o1 = observe(&level);
        agg_findings("first listing", &o1, &resting, &mut findings);
        // blind mutations: adds and cancels (never an id twice)
        let mut live = resting.len();
        for _ in 0..k {
            if live < 2 || rng.chance(1, 2) {
                add(&level, &mut resting, &mut next, &mut rng);
                dead.push(false);
                live += 1;
            } else {
                let how = if rng.chance(1, 8) { 0 } else { 2 };
                if let Some(i) = pick_live(&dead, how, &mut rng) {
                    cancel(&level, &resting, &mut dead, i, &mut findings);
                    live -= 1;
                }
            }
        }
        compact(&mut resting, &mut dead);
        let o2 = observe(&level);
        agg_findings("second listing", &o2, &resting, &mut findings);
        // restore, then drain both
        let twin = match hseq::rebuild(&level, route) {
            Ok(l) => Some(l),
            Err(e) => {
                findings.push(("C10", format!("restore via {} failed: {}", hseq::ROUTE_NAMES[route as usize], e)));
                None
            }
        };
        if let Some(t) = &twin {
            let ot = observe(t);
            if ot.orders != o2.orders || (ot.vis, ot.hid, ot.count) != (o2.vis, o2.hid, o2.count) {
                findings.push((
                    "C10",
                    format!(
                        "the level restored via {} differs: {} orders vis {} count {} vs original {} orders vis {} count {}",
                        hseq::ROUTE_NAMES[route as usize],
                        ot.orders.len(),
                        ot.vis,
                        ot.count,
                        o2.orders.len(),
                        o2.vis,
                        o2.count
                    ),
                ));
            }
        }
        let total: u128 = resting.iter().map(|x| model::vis(x) as u128).sum();
        let want = (total + 5).min(u64::MAX as u128) as u64;
        let drain = |l: &PriceLevel, who: &str, findings: &mut Vec<(&'static str, String)>| -> Vec<(u128, u64)> {
            crate::hook::count_begin(200_000_000);
            let m = l.match_order(want, model::oid(999_999_999), &idgen);
            crate::hook::count_end();
            let txs = m.transactions.as_vec();
            let seq: Vec<(u128, u64)> = txs.iter().map(|t| (model::key(&t.maker_order_id), t.quantity)).collect();
            let exec: u128 = txs.iter().map(|t| t.quantity as u128).sum();
            if exec + m.remaining_quantity as u128 != want as u128 {
                findings.push(("C02", format!("{} drain: executed {} + remaining {} != requested {}", who, exec, m.remaining_quantity, want)));
            }
            if txs.iter().any(|t| t.price != price) {
                findings.push(("C02", format!("{} drain: a transaction does not carry the level's price", who)));
            }
            let mut ids: Vec<Uuid> = txs.iter().map(|t| t.transaction_id).collect();
            ids.sort();
            ids.dedup();
            if ids.len() != txs.len() {
                findings.push(("C14", format!("{} drain: {} transactions carry only {} distinct ids", who, txs.len(), ids.len())));
            }
            let after = observe(l);
            if after.vis != 0 || !after.orders.is_empty() || after.count != 0 {
                if exec < total {
                    findings.push((
                        "C06",
                        format!("{} drain of {} returned with {} executed while {} orders / {} displayed are still resting", who, want, exec, after.orders.len(), after.vis),
                    ));
                } else {
                    findings.push(("C01", format!("{} after the drain: count {} vis {} listing {}", who, after.count, after.vis, after.orders.len())));
                }
            }
            seq
        };
        let expect: Vec<(u128, u64)> = resting.iter().map(|x| (model::key(&model::id_of(x)), model::vis(x))).collect();
        let so = drain(&level, "original", &mut findings);
        if so != expect {
            let at = so.iter().zip(expect.iter()).position(|(a, b)| a != b).unwrap_or(so.len().min(expect.len()));
            let set_equal = {
                let (mut a, mut b) = (so.clone(), expect.clone());
                a.sort();
                b.sort();
                a == b
            };
            findings.push((
                if set_equal { "C04" } else { "C02" },
                format!(
                    "drain of {} resting one-fill orders: {} transactions; expected every order once, completely, in arrival order; first difference at transaction {} (got {:?}, expected {:?})",
                    expect.len(),
                    so.len(),
                    at,
                    so.get(at),
                    expect.get(at)
                ),
            ));
        }
        let mut ntx = so.len();
        if let Some(t) = &twin {
            let st = drain(t, "restored", &mut findings);
            ntx += st.len();
            if st != so {
                let at = st.iter().zip(so.iter()).position(|(a, b)| a != b).unwrap_or(st.len().min(so.len()));
                findings.push((
                    "C11",
                    format!(
                        "the twin restored via {} trades differently: {} vs {} transactions, first difference at transaction {} (restored {:?}, original {:?})",
                        hseq::ROUTE_NAMES[route as usize],
                        st.len(),
                        so.len(),
                        at,
                        st.get(at),
                        so.get(at)
                    ),
                ));
            }
        }
        (findings, ntx)
    });
    crate::hook::count_end();
    match r {
        Ok((f, ntx)) => {
            out.findings = f;
            out.transactions = ntx;
        }
        Err(p) => {
            let msg = crate::sched::panic_message(&*p);
            if msg == crate::hook::OVERRUN_MSG {
                out.findings.push(("C06", "a drain of one-fill orders did not return within 2*10^8 shared-memory steps".into()));
                return out;
            }
            for prop in ["C01", "C02", "C04", "C06", "C07", "C10", "C11"] {
                out.findings.push((prop, format!("a call panicked: {}", msg)));
            }
        }
    }
    out
}

/// Runs `cases` bulk scenarios and reports the findings that refute `prop`.
pub fn run(rep: &mut Report, prop: &'static str, cases: u64) {
    let seed = rep.seed;
    let tier = rep.tier;
    let nw = ncpu().min(cases.max(1) as usize);
    parallel(nw, rep, |w| {
        let mut part = Report::new(prop, tier, seed, "exploration");
        let mut i = w as u64;
        while i < cases {
            let o = bulk_case(seed, i);
            part.add("bulk_scenarios(sparse observation)", 1);
            part.add("bulk_orders_added", o.orders as u64);
            part.add("bulk_transactions", o.transactions as u64);
            part.maxset("max_orders_in_one_bulk_scenario", o.orders as u64);
            part.maxset("max_blind_mutations_between_two_listings", o.blind_mutations as u64);
            for (p, what) in o.findings.iter().filter(|(p, _)| *p == prop).take(3) {
                part.violation(
                    format!("[{}] {}", o.describe, what),
                    json!({"engine": "bulk", "property": p, "seed": seed, "case": i, "finding": what, "scenario": o.describe}),
                );
            }
            i += nw as u64;
        }
        part
    });
}

/// Re-executes one bulk scenario and prints what it finds for `prop`.
pub fn replay(prop: &str, seed: u64, case: u64) -> i32 {
    let o = bulk_case(seed, case);
    println!("  {}", o.describe);
    let mut bad = 0;
    for (p, what) in &o.findings {
        if p == &prop {
            println!("replay: {}", what);
            bad = 1;
        }
    }
    if bad == 0 {
        println!("replay: no finding (property held on this scenario)");
    }
    bad
}
