//! Codec engines: value generators (boundary cross-products + seeded random values), text and
//! JSON round-trip monitors (C16, C17), and the table of parse entry points (C18, C09).

use crate::model::{self, Kind, Order, Params, KINDS};
use crate::rng::Rng;
use pricelevel::verif::{PriceLevelSnapshotPackage, PriceLevelStatistics, TransactionList};
use pricelevel::{
    MatchResult, OrderId, OrderQueue, OrderType, OrderUpdate, PegReferenceType, PriceLevel, PriceLevelData,
    PriceLevelSnapshot, Side, TimeInForce, Transaction,
};
use serde::de::DeserializeOwned;
use serde::Serialize;
use std::collections::BTreeMap;
use std::fmt::Display;
use std::str::FromStr;
use std::sync::Arc;
use uuid::Uuid;

pub const U64_EDGE: [u64; 19] = [
    0,
    1,
    255,
    256,
    65_535,
    65_536,
    (1 << 31) - 1,
    1 << 31,
    (1 << 32) - 1,
    1 << 32,
    (1 << 53) - 1,
    1 << 53,
    (1 << 53) + 1,
    1 << 63,
    (1 << 63) + 1,
    // the largest 19-digit and the smallest 20-digit decimal
    9_999_999_999_999_999_999,
    10_000_000_000_000_000_000,
    u64::MAX - 1,
    u64::MAX,
];
pub const I64_EDGE: [i64; 7] = [i64::MIN, i64::MIN + 1, -1, 0, 1, i64::MAX - 1, i64::MAX];
pub const PEGS: [PegReferenceType; 4] = [
    PegReferenceType::BestBid,
    PegReferenceType::BestAsk,
    PegReferenceType::MidPrice,
    PegReferenceType::LastTrade,
];

pub fn u64v(rng: &mut Rng) -> u64 {
    match rng.below(4) {
        0 => *rng.pick(&U64_EDGE),
        1 => rng.below(1000),
        2 => rng.next_u64() >> rng.below(64),
        _ => rng.next_u64(),
    }
}

pub fn ids(rng: &mut Rng) -> Vec<OrderId> {
    vec![
        OrderId::nil(),
        OrderId::from_uuid(Uuid::max()),
        OrderId::from_uuid(Uuid::from_u128(rng.next_u64() as u128 | ((rng.next_u64() as u128) << 64))),
        OrderId::from_ulid(ulid::Ulid::nil()),
        OrderId::from_ulid(ulid::Ulid::from(u128::MAX)),
        OrderId::from_ulid(ulid::Ulid::from(rng.next_u64() as u128 | ((rng.next_u64() as u128) << 64))),
        OrderId::from_u64(rng.next_u64()),
    ]
}

pub fn idv(rng: &mut Rng) -> OrderId {
    let v = ids(rng);
    *rng.pick(&v)
}

pub fn tifs() -> Vec<TimeInForce> {
    let mut v = vec![TimeInForce::Gtc, TimeInForce::Ioc, TimeInForce::Fok, TimeInForce::Day];
    for e in U64_EDGE {
        v.push(TimeInForce::Gtd(e));
    }
    v
}

pub fn tifv(rng: &mut Rng) -> TimeInForce {
    let v = tifs();
    if rng.chance(1, 4) {
        TimeInForce::Gtd(u64v(rng))
    } else {
        *rng.pick(&v)
    }
}

pub fn sidev(rng: &mut Rng) -> Side {
    if rng.chance(1, 2) {
        Side::Buy
    } else {
        Side::Sell
    }
}

fn paramsv(rng: &mut Rng) -> Params {
    Params {
        thr: u64v(rng),
        amt: if rng.chance(1, 3) { None } else { Some(u64v(rng)) },
        auto: rng.chance(1, 2),
        trail: u64v(rng),
        lastref: u64v(rng),
        peg_off: if rng.chance(1, 2) {
            *rng.pick(&I64_EDGE)
        } else {
            rng.next_u64() as i64
        },
        peg_ref: *rng.pick(&PEGS),
    }
}

pub fn orderv(rng: &mut Rng) -> Order {
    let kind = KINDS[rng.usize_below(7)];
    let p = paramsv(rng);
    model::mk(
        kind,
        idv(rng),
        u64v(rng),
        u64v(rng),
        if kind.layered() { u64v(rng) } else { 0 },
        sidev(rng),
        u64v(rng),
        tifv(rng),
        &p,
    )
}

/// boundary grid of orders: every kind x every tif x both sides, and every numeric field swept
/// over the 64-bit edge values one at a time
pub fn order_grid(rng: &mut Rng) -> Vec<Order> {
    let mut out = Vec::new();
    let idl = ids(rng);
    for kind in KINDS {
        for tif in tifs() {
            for side in [Side::Buy, Side::Sell] {
                let p = paramsv(rng);
                out.push(model::mk(kind, idv(rng), u64v(rng), u64v(rng), if kind.layered() { u64v(rng) } else { 0 }, side, u64v(rng), tif, &p));
            }
        }
        for id in &idl {
            out.push(model::mk(kind, *id, 100, 5, if kind.layered() { 7 } else { 0 }, Side::Buy, 99, TimeInForce::Gtc, &Params::default()));
        }
        for e in U64_EDGE {
            let d = Params::default();
            out.push(model::mk(kind, idl[0], e, 5, 0, Side::Sell, 9, TimeInForce::Gtc, &d));
            out.push(model::mk(kind, idl[1], 5, e, 0, Side::Sell, 9, TimeInForce::Day, &d));
            out.push(model::mk(kind, idl[3], 5, 5, 0, Side::Buy, e, TimeInForce::Ioc, &d));
            if kind.layered() {
                out.push(model::mk(kind, idl[4], 5, 5, e, Side::Buy, 1, TimeInForce::Fok, &d));
            }
            match kind {
                Kind::Reserve => {
                    // the default replenish amount and its neighbours, spelled out
                    for a in [79u64, 80, 81] {
                        out.push(model::mk(kind, idl[2], 5, 5, 5, Side::Buy, e, TimeInForce::Gtc, &Params { thr: 1, amt: Some(a), auto: true, ..d }));
                    }
                    for auto in [false, true] {
                        out.push(model::mk(kind, idl[2], 5, 5, 5, Side::Buy, 1, TimeInForce::Gtc, &Params { thr: e, amt: None, auto, ..d }));
                        out.push(model::mk(kind, idl[2], 5, 5, 5, Side::Buy, 1, TimeInForce::Gtc, &Params { thr: 1, amt: Some(e), auto, ..d }));
                    }
                }
                Kind::Trailing => {
                    out.push(model::mk(kind, idl[2], 5, 5, 0, Side::Buy, 1, TimeInForce::Gtc, &Params { trail: e, ..d }));
                    out.push(model::mk(kind, idl[2], 5, 5, 0, Side::Buy, 1, TimeInForce::Gtc, &Params { lastref: e, ..d }));
                }
                _ => {}
            }
        }
        if kind == Kind::Pegged {
            for e in I64_EDGE {
                for r in PEGS {
                    out.push(model::mk(kind, idl[5], 5, 5, 0, Side::Sell, 1, TimeInForce::Gtc, &Params { peg_off: e, peg_ref: r, ..Params::default() }));
                }
            }
        }
    }
    out
}

pub fn updatev(rng: &mut Rng) -> OrderUpdate {
    let id = idv(rng);
    match rng.below(5) {
        0 => OrderUpdate::UpdatePrice {
            order_id: id,
            new_price: u64v(rng),
        },
        1 => OrderUpdate::UpdateQuantity {
            order_id: id,
            new_quantity: u64v(rng),
        },
        2 => OrderUpdate::UpdatePriceAndQuantity {
            order_id: id,
            new_price: u64v(rng),
            new_quantity: u64v(rng),
        },
        3 => OrderUpdate::Cancel { order_id: id },
        _ => OrderUpdate::Replace {
            order_id: id,
            price: u64v(rng),
            quantity: u64v(rng),
            side: sidev(rng),
        },
    }
}

pub fn update_grid(rng: &mut Rng) -> Vec<OrderUpdate> {
    let mut out = Vec::new();
    for id in ids(rng) {
        for e in U64_EDGE {
            out.push(OrderUpdate::UpdatePrice { order_id: id, new_price: e });
            out.push(OrderUpdate::UpdateQuantity { order_id: id, new_quantity: e });
            out.push(OrderUpdate::UpdatePriceAndQuantity { order_id: id, new_price: e, new_quantity: U64_EDGE[(e % 10) as usize] });
            out.push(OrderUpdate::Replace { order_id: id, price: e, quantity: !e, side: if e % 2 == 0 { Side::Buy } else { Side::Sell } });
        }
        out.push(OrderUpdate::Cancel { order_id: id });
    }
    out
}

pub fn txv(rng: &mut Rng) -> Transaction {
    Transaction {
        transaction_id: match rng.below(3) {
            0 => Uuid::nil(),
            1 => Uuid::max(),
            _ => Uuid::from_u128(rng.next_u64() as u128 | ((rng.next_u64() as u128) << 64)),
        },
        taker_order_id: idv(rng),
        maker_order_id: idv(rng),
        price: u64v(rng),
        quantity: u64v(rng),
        taker_side: sidev(rng),
        timestamp: u64v(rng),
    }
}

/// list lengths: mostly small; one in 12 around a decimal-width change (9-11, 99-101), one in 48 in
/// the hundreds up to past 2^10 (buffers, capacity hints and length prefixes change there)
pub fn list_len(rng: &mut Rng, small: &[usize]) -> usize {
    match rng.below(48) {
        0 => *rng.pick(&[255usize, 256, 257, 600, 999, 1000, 1001, 1023, 1024, 1025]),
        1..=4 => *rng.pick(&[9usize, 10, 11, 31, 32, 33, 64, 65, 99, 100, 101, 128]),
        _ => *rng.pick(small),
    }
}

pub fn txlistv(rng: &mut Rng) -> TransactionList {
    let n = list_len(rng, &[0usize, 0, 1, 2, 3, 5]);
    TransactionList::from_vec((0..n).map(|_| txv(rng)).collect())
}

pub fn mrv(rng: &mut Rng) -> MatchResult {
    let mut m = MatchResult::new(idv(rng), u64v(rng));
    m.transactions = txlistv(rng);
    m.remaining_quantity = u64v(rng);
    m.is_complete = rng.chance(1, 2);
    let n = list_len(rng, &[0usize, 0, 1, 2, 4]);
    m.filled_order_ids = (0..n).map(|_| idv(rng)).collect();
    m
}

pub fn statsv(rng: &mut Rng) -> PriceLevelStatistics {
    // built through its public text form: the fields are public atomics of a type the harness
    // should not name
    let s = format!(
        "PriceLevelStatistics:orders_added={};orders_removed={};orders_executed={};quantity_executed={};value_executed={};last_execution_time={};first_arrival_time={};sum_waiting_time={}",
        u64v(rng) as usize, u64v(rng) as usize, u64v(rng) as usize, u64v(rng), u64v(rng), u64v(rng), u64v(rng), u64v(rng)
    );
    s.parse().expect("statistics text form")
}

pub fn stats_repr(s: &PriceLevelStatistics) -> String {
    s.to_string()
}

/// a level with `n` distinct orders at its own price (quantities bounded so aggregates fit)
pub fn levelv(rng: &mut Rng, n: usize) -> PriceLevel {
    let price = if rng.chance(1, 2) { *rng.pick(&[0u64, 1, 100, 1 << 53, u64::MAX]) } else { u64v(rng) };
    let l = PriceLevel::new(price);
    for i in 0..n {
        let kind = KINDS[rng.usize_below(7)];
        let mut p = paramsv(rng);
        p.thr = rng.below(10);
        let q = if i < 16 && rng.chance(1, 8) { 1u64 << 58 } else { rng.below(1000) };
        let h = if kind.layered() { rng.below(1000) } else { 0 };
        let id = model::oid(1 + i as u64 * 3 + rng.below(3));
        // an order may carry a price other than the level's (add_order does not object)
        let oprice = if rng.chance(1, 3) { u64v(rng) } else { price };
        l.add_order(model::mk(kind, id, oprice, q, h, sidev(rng), if rng.chance(1, 3) { rng.below(5) } else { u64v(rng) }, tifv(rng), &p));
    }
    l
}

pub fn level_repr(l: &PriceLevel) -> String {
    let o = crate::obs::observe(l);
    format!(
        "price={} vis={} hid={} count={} orders={:?}",
        l.price(),
        o.vis,
        o.hid,
        o.count,
        o.canon().iter().map(|x| x.to_string()).collect::<Vec<_>>()
    )
}

pub fn queue_repr(q: &OrderQueue) -> String {
    let mut v: Vec<String> = q.to_vec().iter().map(|o| o.to_string()).collect();
    v.sort();
    format!("len={} {:?}", q.len(), v)
}

pub fn queuev(rng: &mut Rng, n: usize) -> OrderQueue {
    let q = OrderQueue::new();
    for i in 0..n {
        let o = model::with_id(&orderv(rng), model::oid(10 + i as u64));
        q.push(Arc::new(o));
    }
    q
}

// ---------------------------------------------------------------------------------------------
// round-trip monitors
// ---------------------------------------------------------------------------------------------

#[derive(Default)]
pub struct RtStats {
    pub per_type: BTreeMap<String, u64>,
    pub failures: Vec<(String, String)>,
    pub total: u64,
    pub distinct: std::collections::HashSet<u64>,
    pub samples: Vec<String>,
    /// most orders in one level / queue that went through a round-trip
    pub widest: usize,
}

impl RtStats {
    fn note(&mut self, name: &str, enc: &str) {
        self.total += 1;
        *self.per_type.entry(name.to_string()).or_default() += 1;
        self.distinct.insert(crate::rng::fnv(enc.as_bytes()));
        if self.per_type[name] == 1 && self.samples.len() < 40 {
            let mut e = enc.to_string();
            if e.len() > 200 {
                let mut cut = 200;
                while !e.is_char_boundary(cut) {
                    cut -= 1;
                }
                e.truncate(cut);
                e.push_str("...");
            }
            self.samples.push(format!("{}: {}", name, e));
        }
    }
    fn fail(&mut self, name: &str, what: String) {
        if self.failures.len() < 50 {
            self.failures.push((name.to_string(), what));
        }
    }
}

pub fn rt_text<T: Display + FromStr>(name: &str, v: &T, repr: impl Fn(&T) -> String, st: &mut RtStats)
where
    T::Err: Display,
{
    let enc = v.to_string();
    st.note(name, &enc);
    crate::hook::crumb(name, &enc);
    match crate::hook::quiet_catch(|| enc.parse::<T>()) {
        Err(p) => st.fail(name, format!("parse of its own text panicked ({}): {}", crate::sched::panic_message(&*p), enc)),
        Ok(Err(e)) => st.fail(name, format!("its own text does not parse ({}): {}", e, enc)),
        Ok(Ok(back)) => {
            let (a, b) = (repr(v), repr(&back));
            if a != b {
                st.fail(name, format!("text round-trip changed the value: {} -> text {} -> {}", a, enc, b));
            }
        }
    }
}

pub fn rt_json<T: Serialize + DeserializeOwned>(name: &str, v: &T, repr: impl Fn(&T) -> String, st: &mut RtStats) -> Option<T> {
    let enc = match serde_json::to_string(v) {
        Ok(e) => e,
        Err(e) => {
            st.note(name, "");
            st.fail(name, format!("does not serialize: {} ({})", e, repr(v)));
            return None;
        }
    };
    st.note(name, &enc);
    crate::hook::crumb(name, &enc);
    match crate::hook::quiet_catch(|| serde_json::from_str::<T>(&enc)) {
        Err(p) => {
            st.fail(name, format!("deserialize of its own JSON panicked ({}): {}", crate::sched::panic_message(&*p), enc));
            None
        }
        Ok(Err(e)) => {
            st.fail(name, format!("its own JSON does not deserialize ({}): {}", e, enc));
            None
        }
        Ok(Ok(back)) => {
            let (a, b) = (repr(v), repr(&back));
            if a != b {
                st.fail(name, format!("JSON round-trip changed the value: {} -> {} -> {}", a, enc, b));
            }
            Some(back)
        }
    }
}

fn dbg<T: std::fmt::Debug>(v: &T) -> String {
    format!("{:?}", v)
}

pub fn snapshot_repr_full(s: &PriceLevelSnapshot) -> String {
    format!(
        "price={} vis={} hid={} count={} orders={:?}",
        s.price,
        s.visible_quantity,
        s.hidden_quantity,
        s.order_count,
        s.orders.iter().map(|o| o.to_string()).collect::<Vec<_>>()
    )
}

/// One batch of text round-trips over every codec type.  `grid` adds the boundary grids.
pub fn text_batch(rng: &mut Rng, grid: bool, n_random: usize, st: &mut RtStats) {
    if grid {
        for o in order_grid(rng) {
            rt_text("OrderType", &o, dbg, st);
        }
        for u in update_grid(rng) {
            rt_text("OrderUpdate", &u, dbg, st);
        }
        for id in ids(rng) {
            rt_text("OrderId", &id, dbg, st);
        }
        for s in [Side::Buy, Side::Sell] {
            rt_text("Side", &s, dbg, st);
        }
        for t in tifs() {
            rt_text("TimeInForce", &t, dbg, st);
        }
        for p in PEGS {
            rt_text("PegReferenceType", &p, dbg, st);
        }
        rt_text("TransactionList", &TransactionList::new(), dbg, st);
        rt_text("OrderQueue", &OrderQueue::new(), queue_repr, st);
        rt_text("PriceLevel", &PriceLevel::new(0), level_repr, st);
        rt_text("PriceLevel", &PriceLevel::new(u64::MAX), level_repr, st);
        for a in U64_EDGE {
            for b in [0u64, 1, u64::MAX] {
                let s = PriceLevelSnapshot {
                    price: a,
                    visible_quantity: b,
                    hidden_quantity: !a,
                    order_count: (a ^ b) as usize,
                    orders: Vec::new(),
                };
                rt_text("PriceLevelSnapshot", &s, |s| format!("{} {} {} {}", s.price, s.visible_quantity, s.hidden_quantity, s.order_count), st);
            }
        }
    }
    for _ in 0..n_random {
        rt_text("OrderType", &orderv(rng), dbg, st);
        rt_text("OrderUpdate", &updatev(rng), dbg, st);
        rt_text("OrderId", &idv(rng), dbg, st);
        rt_text("TimeInForce", &tifv(rng), dbg, st);
        rt_text("Transaction", &txv(rng), dbg, st);
        rt_text("TransactionList", &txlistv(rng), dbg, st);
        rt_text("MatchResult", &mrv(rng), dbg, st);
        rt_text("PriceLevelStatistics", &statsv(rng), stats_repr, st);
        let s = PriceLevelSnapshot {
            price: u64v(rng),
            visible_quantity: u64v(rng),
            hidden_quantity: u64v(rng),
            order_count: u64v(rng) as usize,
            orders: Vec::new(),
        };
        rt_text("PriceLevelSnapshot", &s, |s| format!("{} {} {} {}", s.price, s.visible_quantity, s.hidden_quantity, s.order_count), st);
        if rng.chance(1, 4) {
            let n = list_len(rng, &[0, 1, 2, 3, 4, 5]);
            st.widest = st.widest.max(n);
            rt_text("PriceLevel", &levelv(rng, n), level_repr, st);
            let n = list_len(rng, &[0, 1, 2, 3, 4, 5]);
            st.widest = st.widest.max(n);
            rt_text("OrderQueue", &queuev(rng, n), queue_repr, st);
        }
    }
}

/// One batch of JSON round-trips over every serde-enabled type.
pub fn json_batch(rng: &mut Rng, grid: bool, n_random: usize, st: &mut RtStats) {
    if grid {
        for o in order_grid(rng) {
            rt_json("OrderType", &o, dbg, st);
        }
        for u in update_grid(rng) {
            rt_json("OrderUpdate", &u, dbg, st);
        }
        for id in ids(rng) {
            rt_json("OrderId", &id, dbg, st);
        }
        for s in [Side::Buy, Side::Sell] {
            rt_json("Side", &s, dbg, st);
        }
        for t in tifs() {
            rt_json("TimeInForce", &t, dbg, st);
        }
        for p in PEGS {
            rt_json("PegReferenceType", &p, dbg, st);
        }
        // every accepted alias decodes to the same value
        for (txt, want) in [("\"buy\"", Side::Buy), ("\"Buy\"", Side::Buy), ("\"BUY\"", Side::Buy), ("\"sell\"", Side::Sell), ("\"Sell\"", Side::Sell), ("\"SELL\"", Side::Sell)] {
            st.note("Side(alias)", txt);
            match serde_json::from_str::<Side>(txt) {
                Ok(s) if s == want => {}
                other => st.fail("Side(alias)", format!("{} decodes to {:?}", txt, other.ok())),
            }
        }
        for (txt, want) in [
            ("\"gtc\"", TimeInForce::Gtc), ("\"Gtc\"", TimeInForce::Gtc), ("\"GTC\"", TimeInForce::Gtc),
            ("\"ioc\"", TimeInForce::Ioc), ("\"Ioc\"", TimeInForce::Ioc), ("\"IOC\"", TimeInForce::Ioc),
            ("\"fok\"", TimeInForce::Fok), ("\"Fok\"", TimeInForce::Fok), ("\"FOK\"", TimeInForce::Fok),
            ("\"day\"", TimeInForce::Day), ("\"Day\"", TimeInForce::Day), ("\"DAY\"", TimeInForce::Day),
            ("{\"gtd\":18446744073709551615}", TimeInForce::Gtd(u64::MAX)), ("{\"Gtd\":9007199254740993}", TimeInForce::Gtd((1 << 53) + 1)), ("{\"GTD\":0}", TimeInForce::Gtd(0)),
        ] {
            st.note("TimeInForce(alias)", txt);
            match serde_json::from_str::<TimeInForce>(txt) {
                Ok(s) if s == want => {}
                other => st.fail("TimeInForce(alias)", format!("{} decodes to {:?}", txt, other.ok())),
            }
        }
    }
    for _ in 0..n_random {
        rt_json("OrderType", &orderv(rng), dbg, st);
        rt_json("OrderUpdate", &updatev(rng), dbg, st);
        rt_json("OrderId", &idv(rng), dbg, st);
        rt_json("TimeInForce", &tifv(rng), dbg, st);
        rt_json("Transaction", &txv(rng), dbg, st);
        rt_json("TransactionList", &txlistv(rng), dbg, st);
        rt_json("MatchResult", &mrv(rng), dbg, st);
        rt_json("PriceLevelStatistics", &statsv(rng), stats_repr, st);
        if rng.chance(1, 3) {
            let n = list_len(rng, &[0, 1, 2, 3, 4, 5]);
            st.widest = st.widest.max(n);
            let l = levelv(rng, n);
            rt_json("PriceLevel", &l, level_repr, st);
            let s = l.snapshot();
            rt_json("PriceLevelSnapshot", &s, snapshot_repr_full, st);
            let mut lying = s.clone();
            lying.visible_quantity = u64v(rng);
            lying.order_count = u64v(rng) as usize;
            rt_json("PriceLevelSnapshot", &lying, snapshot_repr_full, st);
            // a hand-assembled snapshot whose order sequence is not the listing order
            let mut shuffled = s.clone();
            rng.shuffle(&mut shuffled.orders);
            shuffled.orders.reverse();
            rt_json("PriceLevelSnapshot(shuffled)", &shuffled, snapshot_repr_full, st);
            let pk = PriceLevelSnapshotPackage {
                version: 1,
                snapshot: shuffled.clone(),
                checksum: "00".repeat(32),
            };
            rt_json("PriceLevelSnapshotPackage(shuffled)", &pk, |p| format!("v{} {} {}", p.version, p.checksum, snapshot_repr_full(&p.snapshot)), st);
            match l.snapshot_package() {
                Ok(pkg) => {
                    let back = rt_json("PriceLevelSnapshotPackage", &pkg, |p| format!("v{} {} {}", p.version, p.checksum, snapshot_repr_full(&p.snapshot)), st);
                    if let Some(b) = back {
                        if let Err(e) = b.validate() {
                            st.fail("PriceLevelSnapshotPackage", format!("no longer validates after the JSON trip: {}", e));
                        }
                    }
                    // the package's own to_json / from_json
                    st.note("PriceLevelSnapshotPackage(to_json)", "");
                    match pkg.to_json().and_then(|j| PriceLevelSnapshotPackage::from_json(&j)) {
                        Ok(b) => {
                            if b.validate().is_err() || snapshot_repr_full(&b.snapshot) != snapshot_repr_full(&pkg.snapshot) || b.checksum != pkg.checksum {
                                st.fail("PriceLevelSnapshotPackage(to_json)", "to_json/from_json changed the package".into());
                            }
                        }
                        Err(e) => st.fail("PriceLevelSnapshotPackage(to_json)", format!("to_json/from_json failed: {}", e)),
                    }
                }
                Err(e) => st.fail("PriceLevelSnapshotPackage", format!("snapshot_package failed: {}", e)),
            }
            let d = PriceLevelData::from(&l);
            rt_json("PriceLevelData", &d, dbg, st);
            let n = list_len(rng, &[0, 1, 2, 3, 4, 5]);
            st.widest = st.widest.max(n);
            rt_json("OrderQueue", &queuev(rng, n), queue_repr, st);
        }
    }
}

// ---------------------------------------------------------------------------------------------
// parse entry points (C18)
// ---------------------------------------------------------------------------------------------

pub type ParseFn = fn(&str) -> bool;

fn p<T: FromStr>(s: &str) -> bool {
    s.parse::<T>().is_ok()
}
fn j<T: DeserializeOwned>(s: &str) -> bool {
    serde_json::from_str::<T>(s).is_ok()
}

pub fn text_entries() -> Vec<(&'static str, ParseFn)> {
    vec![
        ("OrderType", p::<OrderType<()>> as ParseFn),
        ("OrderUpdate", p::<OrderUpdate>),
        ("OrderId", p::<OrderId>),
        ("Side", p::<Side>),
        ("TimeInForce", p::<TimeInForce>),
        ("PegReferenceType", p::<PegReferenceType>),
        ("Transaction", p::<Transaction>),
        ("TransactionList", p::<TransactionList>),
        ("MatchResult", p::<MatchResult>),
        ("PriceLevel", p::<PriceLevel>),
        ("PriceLevelSnapshot", p::<PriceLevelSnapshot>),
        ("PriceLevelStatistics", p::<PriceLevelStatistics>),
        ("OrderQueue", p::<OrderQueue>),
        ("OrderType<OrderMetadata-like u8>", p::<OrderType<u8>>),
    ]
}

pub fn json_entries() -> Vec<(&'static str, ParseFn)> {
    vec![
        ("json:OrderType", j::<OrderType<()>> as ParseFn),
        ("json:OrderUpdate", j::<OrderUpdate>),
        ("json:OrderId", j::<OrderId>),
        ("json:Side", j::<Side>),
        ("json:TimeInForce", j::<TimeInForce>),
        ("json:PegReferenceType", j::<PegReferenceType>),
        ("json:Transaction", j::<Transaction>),
        ("json:TransactionList", j::<TransactionList>),
        ("json:MatchResult", j::<MatchResult>),
        ("json:PriceLevel", j::<PriceLevel>),
        ("json:PriceLevelData", j::<PriceLevelData>),
        ("json:PriceLevelSnapshot", j::<PriceLevelSnapshot>),
        ("json:PriceLevelSnapshotPackage", j::<PriceLevelSnapshotPackage>),
        ("json:PriceLevelStatistics", j::<PriceLevelStatistics>),
        ("json:OrderQueue", j::<OrderQueue>),
        ("json:UuidGenerator", j::<pricelevel::UuidGenerator>),
        ("from_snapshot_json", (|s: &str| PriceLevel::from_snapshot_json(s).is_ok()) as ParseFn),
        ("SnapshotPackage::from_json", (|s: &str| PriceLevelSnapshotPackage::from_json(s).is_ok()) as ParseFn),
    ]
}

/// valid encodings to mutate: (entry name, encoding)
pub fn seeds_text(rng: &mut Rng, per_type: usize) -> Vec<(&'static str, String)> {
    let mut v: Vec<(&'static str, String)> = Vec::new();
    for _ in 0..per_type {
        v.push(("OrderType", orderv(rng).to_string()));
        v.push(("OrderUpdate", updatev(rng).to_string()));
        v.push(("Transaction", txv(rng).to_string()));
        v.push(("TransactionList", txlistv(rng).to_string()));
        v.push(("MatchResult", mrv(rng).to_string()));
        let n = rng.usize_below(4);
        v.push(("PriceLevel", levelv(rng, n).to_string()));
        v.push(("PriceLevelSnapshot", levelv(rng, 1).snapshot().to_string()));
        v.push(("PriceLevelStatistics", statsv(rng).to_string()));
        let n = rng.usize_below(4);
        v.push(("OrderQueue", queuev(rng, n).to_string()));
    }
    // list-shaped values with several elements are always among the seeds (separators between
    // elements are where list parsers go wrong)
    v.push(("PriceLevel", levelv(rng, 2).to_string()));
    v.push(("PriceLevel", levelv(rng, 3).to_string()));
    v.push(("OrderQueue", queuev(rng, 2).to_string()));
    v.push(("OrderQueue", queuev(rng, 3).to_string()));
    v.push(("TransactionList", TransactionList::from_vec(vec![txv(rng), txv(rng), txv(rng)]).to_string()));
    {
        let mut m = mrv(rng);
        m.transactions = TransactionList::from_vec(vec![txv(rng), txv(rng)]);
        m.filled_order_ids = vec![idv(rng), idv(rng), idv(rng)];
        v.push(("MatchResult", m.to_string()));
    }
    for k in KINDS {
        v.push(("OrderType", model::mk(k, idv(rng), 100, 5, if k.layered() { 5 } else { 0 }, Side::Buy, 7, TimeInForce::Gtd(5), &Params::default()).to_string()));
    }
    for id in ids(rng) {
        v.push(("OrderId", id.to_string()));
    }
    for t in tifs() {
        v.push(("TimeInForce", t.to_string()));
    }
    v.push(("Side", "BUY".into()));
    v.push(("Side", "SELL".into()));
    for pg in PEGS {
        v.push(("PegReferenceType", pg.to_string()));
    }
    v
}

pub fn seeds_json(rng: &mut Rng, per_type: usize) -> Vec<(&'static str, String)> {
    let mut v: Vec<(&'static str, String)> = Vec::new();
    let js = |x: &dyn erased::Ser| x.ser();
    for _ in 0..per_type {
        v.push(("json:OrderType", js(&orderv(rng))));
        v.push(("json:OrderUpdate", js(&updatev(rng))));
        v.push(("json:OrderId", js(&idv(rng))));
        v.push(("json:TimeInForce", js(&tifv(rng))));
        v.push(("json:Transaction", js(&txv(rng))));
        v.push(("json:TransactionList", js(&txlistv(rng))));
        v.push(("json:MatchResult", js(&mrv(rng))));
        v.push(("json:PriceLevelStatistics", js(&statsv(rng))));
        let n = rng.usize_below(3);
        let l = levelv(rng, n);
        v.push(("json:PriceLevel", js(&l)));
        v.push(("json:PriceLevelData", js(&PriceLevelData::from(&l))));
        v.push(("json:PriceLevelSnapshot", js(&l.snapshot())));
        if let Ok(pk) = l.snapshot_package() {
            v.push(("json:PriceLevelSnapshotPackage", js(&pk)));
            v.push(("from_snapshot_json", js(&pk)));
        }
        let n = rng.usize_below(3);
        v.push(("json:OrderQueue", js(&queuev(rng, n))));
    }
    {
        let l = levelv(rng, 3);
        v.push(("json:PriceLevel", js(&l)));
        v.push(("json:PriceLevelSnapshot", js(&l.snapshot())));
        if let Ok(pk) = l.snapshot_package() {
            v.push(("from_snapshot_json", js(&pk)));
        }
        v.push(("json:OrderQueue", js(&queuev(rng, 3))));
        let mut m = mrv(rng);
        m.transactions = TransactionList::from_vec(vec![txv(rng), txv(rng)]);
        m.filled_order_ids = vec![idv(rng), idv(rng)];
        v.push(("json:MatchResult", js(&m)));
    }
    v.push(("json:Side", "\"BUY\"".into()));
    v.push(("json:PegReferenceType", "\"MidPrice\"".into()));
    v
}

mod erased {
    pub trait Ser {
        fn ser(&self) -> String;
    }
    impl<T: serde::Serialize> Ser for T {
        fn ser(&self) -> String {
            serde_json::to_string(self).unwrap_or_default()
        }
    }
}

/// hand-written hostile strings, fed to every entry point
pub fn dictionary() -> Vec<String> {
    let mut v: Vec<String> = [
        "", " ", ":", ";", "=", ",", "[", "]", "[]", "][", "{}", "{", "}", "null", "\"\"", "0", "-1", "1e999",
        "MatchResult:order_id=é", "MatchResult:", "MatchResult:order_id=", "MatchResult:transactions=Transactions:[",
        "MatchResult:transactions=Transactions:[é", "MatchResult:filled_order_ids=[é", "MatchResult:filled_order_ids=[",
        "MatchResult:transactions=Transactions:[]]", "MatchResult:transactions=Transactions:[];é",
        "MatchResult:order_id=00000000-0000-0000-0000-000000000000;remaining_quantity=0;is_complete=true;transactions=Transactions:[];filled_order_ids=[]é",
        "MatchResult:order_id=00000000-0000-0000-0000-000000000000;remaining_quantity=0;is_complete=true;transactions=Transactions:[];filled_order_ids=[€]",
        "Transactions:[", "Transactions:[]", "Transactions:[]]", "Transactions:[[", "Transactions:[,]", "Transactions:[é]", "Transactions:]",
        "PriceLevel:", "PriceLevel:orders=[", "PriceLevel:orders=[]", "PriceLevel:price=1;orders=[é", "PriceLevel:price=1;orders=[(((", "PriceLevel:price=1;orders=[)))]",
        "PriceLevel:price=1;orders=[,]", "PriceLevel:orders=[]price=5", "PriceLevel:price=99999999999999999999999999", "PriceLevel:price=é;orders=[]",
        "PriceLevel:price=1;orders=[Standard:id=x]", "PriceLevel:price=1;orders=[]orders=[", "PriceLevel:price=1;;;;=;=;orders=[]",
        "OrderQueue:orders=[", "OrderQueue:orders=[]", "OrderQueue:orders=[]]", "OrderQueue:orders=[,]", "OrderQueue:orders=[é]", "OrderQueue:orders=]",
        "Standard:", "Standard:id=", "Standard:id=é", "Standard:id=1;id=2", "Standard::", ":Standard", "Standard:=;=;=", "Unknown:id=1",
        "GTD-", "GTD--1", "GTD-1-2", "gtd-18446744073709551616", "GTD-é", "ß", "GTD-ſ",
        "PriceLevelSnapshot:", "PriceLevelSnapshot:price=1", "PriceLevelStatistics:", "PriceLevelStatistics:orders_added=-1",
        "UpdatePrice:", "Cancel:order_id=", "Replace:order_id=é;price=1;quantity=1;side=BUY",
        "Transaction:", "Transaction:transaction_id=é", "\u{0}", "\u{feff}", "😀", "é", "€€€€", "\n", "\r\n", "\t",
        "{\"version\":1}", "{\"version\":1,\"snapshot\":null,\"checksum\":\"\"}", "{\"version\":1,\"snapshot\":{},\"checksum\":\"\"}",
        "{\"version\":1,\"snapshot\":{\"price\":1,\"visible_quantity\":0,\"hidden_quantity\":0,\"order_count\":0},\"checksum\":\"\"}",
        "{\"price\":1,\"visible_quantity\":0,\"hidden_quantity\":0,\"order_count\":0,\"orders\":[null]}",
        "{\"Standard\":{}}", "{\"GTD\":-1}", "{\"GTD\":1e30}", "{\"GTD\":\"1\"}", "[[[[[[[[[[[[[[[[[[[[[[[[[[[[[[[[[[[[[[[[",
    ]
    .iter()
    .map(|s| s.to_string())
    .collect();
    v.push("9".repeat(40));
    v.push(format!("PriceLevel:price={}", "9".repeat(40)));
    v.push(format!("MatchResult:order_id={}", "é".repeat(200)));
    v.push("[".repeat(5000));
    v.push(format!("{}{}", "[".repeat(200), "]".repeat(200)));
    v.push(format!("Transactions:[{}", "[".repeat(3000)));
    v.push(format!("PriceLevel:price=1;orders=[{}", "(".repeat(3000)));
    v.push(format!("PriceLevel:price=1;orders=[{}]", ")".repeat(3000)));
    v.push(format!("MatchResult:transactions=Transactions:[{}", "[".repeat(3000)));
    v
}
