//! Observations taken through pricelevel's public API only.

use crate::hook;
use crate::model::{self, Order};
use pricelevel::PriceLevel;

#[derive(Clone, Debug, PartialEq, Eq)]
pub struct Obs {
    /// `iter_orders()`, field-for-field copies, in the order the level lists them
    pub orders: Vec<Order>,
    pub vis: u64,
    pub hid: u64,
    pub count: usize,
    /// `total_quantity()`; None if the call panicked (overflow instrumentation)
    pub total: Option<u64>,
    /// orders_added, orders_removed, quantity_executed, value_executed
    pub stats: [u64; 4],
    /// aggregate fields of `snapshot()`: visible, hidden, count, number of orders
    pub snap: [u64; 4],
}

impl Obs {
    pub fn find(&self, id: u128) -> Option<&Order> {
        self.orders.iter().find(|o| model::key(&model::id_of(o)) == id)
    }
    pub fn sum_vis(&self) -> u128 {
        self.orders.iter().map(|o| model::vis(o) as u128).sum()
    }
    pub fn sum_hid(&self) -> u128 {
        self.orders.iter().map(|o| model::hid(o) as u128).sum()
    }
    /// listing sorted by (timestamp, id): canonical multiset form (DashMap iteration order makes
    /// the tie order of the raw listing unspecified)
    pub fn canon(&self) -> Vec<Order> {
        let mut v = self.orders.clone();
        v.sort_by_key(|o| (model::ts_of(o), model::key(&model::id_of(o))));
        v
    }
}

/// Reads everything a client can read.  Hook events caused by these reads are muted, so they
/// neither count as steps nor become scheduling points.
pub fn observe(level: &PriceLevel) -> Obs {
    hook::mute(|| {
        let orders: Vec<Order> = level.iter_orders().iter().map(|a| **a).collect();
        let vis = level.visible_quantity();
        let hid = level.hidden_quantity();
        let count = level.order_count();
        let total = hook::quiet_catch(|| level.total_quantity()).ok();
        let st = level.stats();
        let stats = [
            st.orders_added() as u64,
            st.orders_removed() as u64,
            st.quantity_executed(),
            st.value_executed(),
        ];
        let s = level.snapshot();
        let snap = [
            s.visible_quantity,
            s.hidden_quantity,
            s.order_count as u64,
            s.orders.len() as u64,
        ];
        Obs {
            orders,
            vis,
            hid,
            count,
            total,
            stats,
            snap,
        }
    })
}
