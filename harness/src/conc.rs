//! Concurrent programs on one shared level, their execution under E1 (baton scheduler) or E2
//! (free-running threads with delay injection), and the client-boundary history they leave.

use crate::hook::{self, Ev};
use crate::model::{self, Kind, Order, Params};
use crate::obs::{observe, Obs};
use crate::rng::{fnv, fnv_mix, Rng};
use crate::sched::{self, Body, ExecResult, Inspect, Strategy, Verdict, Worker};
use pricelevel::{MatchResult, OrderId, OrderUpdate, PriceLevel, Side, TimeInForce, UuidGenerator};
use std::sync::atomic::{AtomicU64, Ordering};
use std::sync::{Arc, Mutex};
use uuid::Uuid;

#[derive(Clone, Debug)]
pub enum COp {
    Add(Order),
    Match { qty: u64, taker: OrderId },
    Cancel(OrderId),
    /// a move away from the level: 1 = UpdatePrice, 2 = UpdatePriceAndQuantity, 3 = Replace, each
    /// with a price different from the level's (same contract as a cancel)
    Move(OrderId, u8),
    Amend { id: OrderId, qty: u64 },
    /// 0 = aggregates, 1 = snapshot, 2 = listing
    Read(u8),
}

impl COp {
    pub fn describe(&self) -> String {
        match self {
            COp::Add(o) => format!("add {}", model::short(o)),
            COp::Match { qty, .. } => format!("match {}", qty),
            COp::Cancel(id) => format!("cancel {:x}", model::key(id) >> 64),
            COp::Move(id, how) => format!("move#{} {:x}", how, model::key(id) >> 64),
            COp::Amend { id, qty } => format!("amend {:x} -> {}", model::key(id) >> 64, qty),
            COp::Read(k) => format!("read#{}", k),
        }
    }
    pub fn target(&self) -> Option<u128> {
        match self {
            COp::Add(o) => Some(model::key(&model::id_of(o))),
            COp::Cancel(id) | COp::Move(id, _) | COp::Amend { id, .. } => Some(model::key(id)),
            _ => None,
        }
    }
}

#[derive(Clone, Debug)]
pub enum CRes {
    Added,
    Matched(MatchResult),
    Updated(Result<Option<Order>, String>),
    /// visible, hidden, count (aggregates or snapshot fields), number of listed orders
    ReadAgg(u64, u64, u64, u64),
    Panicked(String),
    /// the call was still open when the execution was cut (budget / watchdog)
    Open,
}

#[derive(Clone, Debug)]
pub struct CRec {
    pub thread: usize,
    pub idx: usize,
    pub op: COp,
    pub call: u64,
    pub ret: u64,
    pub res: CRes,
}

#[derive(Clone, Debug)]
pub struct Program {
    pub price: u64,
    pub preload: Vec<Order>,
    pub threads: Vec<Vec<COp>>,
}

impl Program {
    pub fn describe(&self) -> Vec<String> {
        let mut v = vec![format!(
            "level price={} preload=[{}]",
            self.price,
            self.preload.iter().map(model::short).collect::<Vec<_>>().join(", ")
        )];
        for (i, t) in self.threads.iter().enumerate() {
            v.push(format!("T{}: {}", i, t.iter().map(|o| o.describe()).collect::<Vec<_>>().join("; ")));
        }
        v
    }
    pub fn hash(&self) -> u64 {
        let mut h = fnv(b"prog");
        for l in self.describe() {
            h = fnv_mix(h, fnv(l.as_bytes()));
        }
        h
    }
}

#[derive(Clone, Copy, Debug)]
pub struct ProgCfg {
    pub threads: (usize, usize),
    pub ops: (usize, usize),
    pub preload: (usize, usize),
    /// add, match, cancel, amend, read
    pub w: [u32; 5],
    /// all order types (true) or Standard / Iceberg / Reserve only (false)
    pub all_kinds: bool,
    pub zero_pct: u32,
    /// 33-130 one-fill filler orders queued behind the preload (a deep book: code gated on the
    /// number of resting orders is reached, the number of scheduled steps per call stays the same)
    pub deep: bool,
}

impl ProgCfg {
    pub fn base() -> Self {
        ProgCfg {
            threads: (2, 4),
            ops: (1, 4),
            preload: (1, 4),
            w: [15, 35, 20, 22, 8],
            all_kinds: false,
            zero_pct: 4,
            deep: false,
        }
    }
}

fn small_order(rng: &mut Rng, idn: u64, price: u64, side: Side, ts: u64, cfg: &ProgCfg) -> Order {
    let kind = if cfg.all_kinds {
        model::KINDS[rng.usize_below(7)]
    } else {
        *rng.pick(&[Kind::Standard, Kind::Standard, Kind::Iceberg, Kind::Iceberg, Kind::Reserve, Kind::Reserve, Kind::PostOnly])
    };
    let z = rng.below(100) < cfg.zero_pct as u64;
    let v = if z { 0 } else { rng.range(1, 9) };
    let h = if kind.layered() { *rng.pick(&[0u64, 1, 2, 3, 5, 8]) } else { 0 };
    let p = Params {
        thr: *rng.pick(&[0u64, 1, 2, 4]),
        amt: *rng.pick(&[None, Some(0), Some(1), Some(2), Some(3)]),
        auto: rng.chance(3, 4),
        ..Params::default()
    };
    model::mk(kind, model::oid(idn), price, v, h, side, ts, TimeInForce::Gtc, &p)
}

pub fn gen_program(rng: &mut Rng, cfg: &ProgCfg) -> Program {
    let price = *rng.pick(&[1u64, 10, 100]);
    let side = if rng.chance(1, 2) { Side::Buy } else { Side::Sell };
    let n_pre = rng.range(cfg.preload.0 as u64, cfg.preload.1 as u64) as usize;
    let mut next_id = 1u64;
    let mut ts = 100u64;
    let mut preload = Vec::new();
    for _ in 0..n_pre {
        preload.push(small_order(rng, next_id, price, side, ts, cfg));
        next_id += 1;
        ts += 10;
    }
    let n_thr = rng.range(cfg.threads.0 as u64, cfg.threads.1 as u64) as usize;
    let mut threads = Vec::new();
    // ids that exist at some point: operations collide on them
    let mut pool: Vec<OrderId> = preload.iter().map(model::id_of).collect();
    let mut plan: Vec<Vec<u8>> = Vec::new();
    for _ in 0..n_thr {
        let n = rng.range(cfg.ops.0 as u64, cfg.ops.1 as u64) as usize;
        plan.push((0..n).map(|_| rng.weighted(&cfg.w) as u8).collect());
    }
    // adds first get their ids so that other threads may target them too
    let mut adds: Vec<Vec<Option<Order>>> = Vec::new();
    for t in &plan {
        let mut v = Vec::new();
        for k in t {
            if *k == 0 {
                let o = small_order(rng, next_id, price, side, ts, cfg);
                next_id += 1;
                ts += 10;
                pool.push(model::id_of(&o));
                v.push(Some(o));
            } else {
                v.push(None);
            }
        }
        adds.push(v);
    }
    for (ti, t) in plan.iter().enumerate() {
        let mut ops = Vec::new();
        for (oi, k) in t.iter().enumerate() {
            let target = if !pool.is_empty() && !rng.chance(1, 12) {
                *rng.pick(&pool)
            } else {
                model::oid(700 + rng.below(5))
            };
            ops.push(match k {
                0 => COp::Add(adds[ti][oi].unwrap()),
                1 => COp::Match {
                    // on a deep book one match in four sweeps everything that is displayed
                    qty: if cfg.deep && rng.chance(1, 4) { 10_000 } else { rng.range(1, 14) },
                    taker: model::oid(9_000 + (ti * 10 + oi) as u64),
                },
                2 => {
                    if rng.chance(1, 5) {
                        COp::Move(target, 1 + rng.below(3) as u8)
                    } else {
                        COp::Cancel(target)
                    }
                }
                3 => COp::Amend {
                    id: target,
                    qty: if rng.chance(1, 8) { 0 } else { rng.range(1, 12) },
                },
                _ => COp::Read(rng.below(3) as u8),
            });
        }
        threads.push(ops);
    }
    if cfg.deep {
        let n = *rng.pick(&[33usize, 40, 64, 65, 70, 100, 129]);
        for i in 0..n {
            preload.push(model::mk(
                model::Kind::Standard,
                model::oid(50_000 + i as u64),
                price,
                rng.range(1, 5),
                0,
                side,
                ts + 10 * i as u64,
                pricelevel::TimeInForce::Gtc,
                &model::Params::default(),
            ));
        }
    }
    Program {
        price,
        preload,
        threads,
    }
}

/// What the threads have submitted so far, raised at the client boundary *before* each call
/// (so the bound is never early): C12's upper bounds.
#[derive(Default)]
pub struct Bounds {
    pub total: AtomicU64,
    pub hidden: AtomicU64,
    pub adds: AtomicU64,
}

pub struct Execution {
    pub prog: Program,
    pub log: Vec<CRec>,
    pub final_obs: Obs,
    pub level: Arc<PriceLevel>,
    pub idgen: Arc<UuidGenerator>,
    pub exec: Option<ExecResult>,
    pub bounds: Arc<Bounds>,
    /// a free-running call exceeded its step budget and the thread was stopped
    pub incomplete: bool,
    /// E2 only: per-thread map events stamped with the global clock (empty unless requested)
    pub e2_events: Vec<Vec<Ev>>,
}

pub fn apply_pub(level: &PriceLevel, idgen: &UuidGenerator, op: &COp) -> CRes {
    apply(level, idgen, op)
}

fn apply(level: &PriceLevel, idgen: &UuidGenerator, op: &COp) -> CRes {
    let r = hook::quiet_catch(|| match op {
        COp::Add(o) => {
            level.add_order(*o);
            CRes::Added
        }
        COp::Match { qty, taker } => CRes::Matched(level.match_order(*qty, *taker, idgen)),
        COp::Cancel(id) => CRes::Updated(
            level
                .update_order(OrderUpdate::Cancel { order_id: *id })
                .map(|o| o.map(|a| *a))
                .map_err(|e| e.to_string()),
        ),
        COp::Move(id, how) => {
            let other = level.price() + 1;
            let u = match how {
                1 => OrderUpdate::UpdatePrice {
                    order_id: *id,
                    new_price: other,
                },
                2 => OrderUpdate::UpdatePriceAndQuantity {
                    order_id: *id,
                    new_price: other,
                    new_quantity: 5,
                },
                _ => OrderUpdate::Replace {
                    order_id: *id,
                    price: other,
                    quantity: 5,
                    side: Side::Buy,
                },
            };
            CRes::Updated(level.update_order(u).map(|o| o.map(|a| *a)).map_err(|e| e.to_string()))
        }
        COp::Amend { id, qty } => CRes::Updated(
            level
                .update_order(OrderUpdate::UpdateQuantity {
                    order_id: *id,
                    new_quantity: *qty,
                })
                .map(|o| o.map(|a| *a))
                .map_err(|e| e.to_string()),
        ),
        COp::Read(k) => match k {
            0 => CRes::ReadAgg(level.visible_quantity(), level.hidden_quantity(), level.order_count() as u64, 0),
            1 => {
                let s = level.snapshot();
                CRes::ReadAgg(s.visible_quantity, s.hidden_quantity, s.order_count as u64, s.orders.len() as u64)
            }
            _ => {
                let l = level.iter_orders();
                CRes::ReadAgg(0, 0, 0, l.len() as u64)
            }
        },
    });
    match r {
        Ok(x) => x,
        Err(p) => {
            let m = sched::panic_message(&*p);
            if m == hook::OVERRUN_MSG {
                std::panic::panic_any(hook::OVERRUN_MSG);
            }
            CRes::Panicked(m)
        }
    }
}

fn raise_bounds(b: &Bounds, op: &COp) {
    match op {
        COp::Add(o) => {
            b.total.fetch_add(model::vis(o) + model::hid(o), Ordering::SeqCst);
            b.hidden.fetch_add(model::hid(o), Ordering::SeqCst);
            b.adds.fetch_add(1, Ordering::SeqCst);
        }
        COp::Amend { qty, .. } => {
            b.total.fetch_add(*qty, Ordering::SeqCst);
        }
        _ => {}
    }
}

fn setup(prog: &Program) -> (Arc<PriceLevel>, Arc<UuidGenerator>, Arc<Bounds>) {
    hook::install();
    let level = Arc::new(PriceLevel::new(prog.price));
    let bounds = Arc::new(Bounds::default());
    for o in &prog.preload {
        raise_bounds(&bounds, &COp::Add(*o));
        level.add_order(*o);
    }
    let ns = Uuid::from_u128(0x6ba7_b810_9dad_11d1_80b4_00c0_4fd4_30c8 ^ prog.hash() as u128);
    (level, Arc::new(UuidGenerator::new(ns)), bounds)
}

/// E1: runs the program under the baton scheduler.  `inspect` is called by the scheduler thread
/// after every granted shared-memory step, with the world stopped.
pub fn run_e1(
    prog: &Program,
    strat: Strategy,
    sched_seed: u64,
    budget: u64,
    inspect: &mut dyn FnMut(&Inspect, &PriceLevel, &Bounds),
) -> Execution {
    let (level, idgen, bounds) = setup(prog);
    let log: Arc<Mutex<Vec<CRec>>> = Arc::new(Mutex::new(Vec::new()));
    let mut bodies: Vec<Body> = Vec::new();
    for (ti, ops) in prog.threads.iter().enumerate() {
        let level = level.clone();
        let idgen = idgen.clone();
        let bounds = bounds.clone();
        let log = log.clone();
        let ops = ops.clone();
        bodies.push(Box::new(move |w: &Worker| {
            for (oi, op) in ops.iter().enumerate() {
                raise_bounds(&bounds, op);
                let call = w.stamp();
                // the record is written before the call, so that a call that never returns
                // stays in the history as an open operation
                let slot = {
                    let mut l = log.lock().unwrap();
                    l.push(CRec {
                        thread: ti,
                        idx: oi,
                        op: op.clone(),
                        call,
                        ret: u64::MAX,
                        res: CRes::Open,
                    });
                    l.len() - 1
                };
                let res = apply(&level, &idgen, op);
                let ret = w.stamp();
                let mut l = log.lock().unwrap();
                l[slot].ret = ret;
                l[slot].res = res;
            }
        }));
    }
    let lv = level.clone();
    let bd = bounds.clone();
    let exec = sched::run_exec(bodies, strat, sched_seed, budget, true, &mut |i: &Inspect| inspect(i, &lv, &bd));
    let final_obs = observe(&level);
    let log = std::mem::take(&mut *log.lock().unwrap());
    Execution {
        prog: prog.clone(),
        log,
        final_obs,
        level,
        idgen,
        exec: Some(exec),
        bounds,
        incomplete: false,
        e2_events: Vec::new(),
    }
}

/// global ticket clock of E2 histories (the monitor's own state; SeqCst)
pub static E2_CLOCK: AtomicU64 = AtomicU64::new(0);

/// E2: free-running threads on real cores with seeded delay injection at the hooks.
thread_local! {
    /// set by the caller (C13) to make the next `run_e2` on this thread record map events
    pub static E2_WANT_EVENTS: std::cell::Cell<bool> = const { std::cell::Cell::new(false) };
}

pub fn run_e2(prog: &Program, seed: u64, delay_prob: u32, pollers: usize, polled: &mut Vec<(u64, u64, u64)>) -> Execution {
    let want_events = E2_WANT_EVENTS.with(|c| c.get());
    let (level, idgen, bounds) = setup(prog);
    let n = prog.threads.len();
    let barrier = Arc::new(std::sync::Barrier::new(n + pollers));
    let stop = Arc::new(std::sync::atomic::AtomicBool::new(false));
    let mut logs: Vec<Vec<CRec>> = Vec::new();
    let mut evlogs: Vec<Vec<Ev>> = Vec::new();
    let mut seen: Vec<Vec<(u64, u64, u64)>> = Vec::new();
    std::thread::scope(|s| {
        let mut hs = Vec::new();
        for (ti, ops) in prog.threads.iter().enumerate() {
            let level = level.clone();
            let idgen = idgen.clone();
            let bounds = bounds.clone();
            let barrier = barrier.clone();
            hs.push(s.spawn(move || {
                hook::delay_begin(seed ^ (ti as u64 + 1).wrapping_mul(0x9E37_79B9), delay_prob);
                if want_events {
                    hook::e2_log_begin();
                }
                let mut log = Vec::new();
                barrier.wait();
                for (oi, op) in ops.iter().enumerate() {
                    raise_bounds(&bounds, op);
                    let call = E2_CLOCK.fetch_add(1, Ordering::SeqCst);
                    hook::count_reset(hook::FREE_RUN_CALL_BUDGET);
                    let res = match hook::quiet_catch(|| apply(&level, &idgen, op)) {
                        Ok(r) => r,
                        Err(_) => {
                            // step budget exceeded: the call stays open, the thread stops
                            log.push(CRec {
                                thread: ti,
                                idx: oi,
                                op: op.clone(),
                                call,
                                ret: u64::MAX,
                                res: CRes::Open,
                            });
                            break;
                        }
                    };
                    let ret = E2_CLOCK.fetch_add(1, Ordering::SeqCst);
                    log.push(CRec {
                        thread: ti,
                        idx: oi,
                        op: op.clone(),
                        call,
                        ret,
                        res,
                    });
                }
                hook::set_mode(hook::Mode::Off);
                (log, hook::e2_log_take())
            }));
        }
        let mut ps = Vec::new();
        for _ in 0..pollers {
            let level = level.clone();
            let barrier = barrier.clone();
            let stop = stop.clone();
            ps.push(s.spawn(move || {
                let mut v = Vec::new();
                barrier.wait();
                while !stop.load(Ordering::Acquire) && v.len() < 4096 {
                    v.push((level.visible_quantity(), level.hidden_quantity(), level.order_count() as u64));
                }
                v
            }));
        }
        for h in hs {
            let (l, e) = h.join().expect("worker");
            logs.push(l);
            evlogs.push(e);
        }
        stop.store(true, Ordering::Release);
        for p in ps {
            seen.push(p.join().expect("poller"));
        }
    });
    for v in seen {
        polled.extend(v);
    }
    let final_obs = observe(&level);
    let mut log: Vec<CRec> = logs.into_iter().flatten().collect();
    log.sort_by_key(|r| r.call);
    let incomplete = log.iter().any(|r| matches!(r.res, CRes::Open));
    Execution {
        prog: prog.clone(),
        log,
        final_obs,
        level,
        idgen,
        exec: None,
        bounds,
        incomplete,
        e2_events: if want_events { evlogs } else { Vec::new() },
    }
}

impl Execution {
    pub fn completed(&self) -> bool {
        !self.incomplete && self.exec.as_ref().map(|e| e.verdict == Verdict::Completed).unwrap_or(true)
    }
    /// two different threads touched the same order id with at least one mutator and their
    /// call intervals overlapped
    pub fn conflicting(&self) -> bool {
        let touched = |r: &CRec| -> Vec<u128> {
            match (&r.op, &r.res) {
                (COp::Match { .. }, CRes::Matched(m)) => m
                    .transactions
                    .as_vec()
                    .iter()
                    .map(|t| model::key(&t.maker_order_id))
                    .collect(),
                (COp::Read(_), _) => vec![],
                (op, _) => op.target().into_iter().collect(),
            }
        };
        for (i, a) in self.log.iter().enumerate() {
            for b in self.log.iter().skip(i + 1) {
                if a.thread == b.thread {
                    continue;
                }
                let overlap = a.call < b.ret && b.call < a.ret;
                if !overlap {
                    continue;
                }
                let ta = touched(a);
                if ta.is_empty() {
                    continue;
                }
                let tb = touched(b);
                if ta.iter().any(|k| tb.contains(k)) {
                    return true;
                }
            }
        }
        false
    }
    pub fn describe(&self) -> Vec<String> {
        let mut v = self.prog.describe();
        let mut log = self.log.clone();
        log.sort_by_key(|r| r.call);
        for r in &log {
            let res = match &r.res {
                CRes::Added => "ok".to_string(),
                CRes::Matched(m) => format!(
                    "txs=[{}] remaining={}",
                    m.transactions
                        .as_vec()
                        .iter()
                        .map(|t| format!("{:x}:{}", model::key(&t.maker_order_id) >> 64, t.quantity))
                        .collect::<Vec<_>>()
                        .join(","),
                    m.remaining_quantity
                ),
                CRes::Updated(Ok(Some(o))) => format!("-> {}", model::short(o)),
                CRes::Updated(Ok(None)) => "-> not found".into(),
                CRes::Updated(Err(e)) => format!("-> Err({})", e),
                CRes::ReadAgg(a, b, c, d) => format!("-> {}/{}/{}/{}", a, b, c, d),
                CRes::Panicked(m) => format!("PANIC {}", m),
                CRes::Open => "(still open)".into(),
            };
            v.push(format!("[{}..{}] T{}.{} {} {}", r.call, r.ret, r.thread, r.idx, r.op.describe(), res));
        }
        v.push(format!(
            "final: vis={} hid={} count={} listing=[{}]",
            self.final_obs.vis,
            self.final_obs.hid,
            self.final_obs.count,
            self.final_obs.orders.iter().map(model::short).collect::<Vec<_>>().join(", ")
        ));
        v
    }
    pub fn events(&self) -> Vec<(usize, Ev)> {
        let mut v = Vec::new();
        if let Some(e) = &self.exec {
            for (t, evs) in e.events.iter().enumerate() {
                for ev in evs {
                    v.push((t, *ev));
                }
            }
        }
        v.sort_by_key(|(_, e)| e.seq);
        v
    }
}
