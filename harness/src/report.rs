//! Verdict bookkeeping, evidence files, replay files, known findings.

use serde_json::{json, Map, Value};
use std::collections::{BTreeMap, HashSet};
use std::time::Instant;

pub fn verif_dir() -> String {
    std::env::var("PLV_DIR").unwrap_or_else(|_| "/verif".to_string())
}

#[derive(Clone, Copy, PartialEq, Eq, Debug)]
pub enum Tier {
    Quick,
    Thorough,
}

impl Tier {
    pub fn name(self) -> &'static str {
        match self {
            Tier::Quick => "quick",
            Tier::Thorough => "thorough",
        }
    }
    /// pick the budget for this tier
    pub fn pick<T>(self, quick: T, thorough: T) -> T {
        match self {
            Tier::Quick => quick,
            Tier::Thorough => thorough,
        }
    }
}

#[derive(Clone, Debug)]
pub struct Violation {
    pub what: String,
    pub replay: Value,
}

pub struct Report {
    pub prop: &'static str,
    pub tier: Tier,
    pub seed: u64,
    pub level: &'static str,
    pub rule: String,
    pub evaluations: u64,
    pub distinct: HashSet<u64>,
    pub samples: Vec<Value>,
    pub extra: Map<String, Value>,
    pub assumptions: Vec<String>,
    pub violations: Vec<Violation>,
    pub total_violations: u64,
    /// signature -> times observed
    pub known: BTreeMap<String, u64>,
    pub inconclusive: u64,
    pub inconclusive_notes: Vec<String>,
    /// minimum number of distinct non-trivial cases for the run to count as having decided
    pub min_nontrivial: u64,
    t0: Instant,
}

const MAX_KEPT_VIOLATIONS: usize = 20;

impl Report {
    pub fn new(prop: &'static str, tier: Tier, seed: u64, level: &'static str) -> Self {
        Report {
            prop,
            tier,
            seed,
            level,
            rule: String::new(),
            evaluations: 0,
            distinct: HashSet::new(),
            samples: Vec::new(),
            extra: Map::new(),
            assumptions: Vec::new(),
            violations: Vec::new(),
            total_violations: 0,
            known: BTreeMap::new(),
            inconclusive: 0,
            inconclusive_notes: Vec::new(),
            min_nontrivial: 2,
            t0: Instant::now(),
        }
    }

    pub fn violation(&mut self, what: String, replay: Value) {
        self.total_violations += 1;
        if self.violations.len() < MAX_KEPT_VIOLATIONS {
            self.violations.push(Violation { what, replay });
        }
    }

    pub fn known(&mut self, signature: &str, n: u64) {
        *self.known.entry(signature.to_string()).or_default() += n;
    }

    pub fn inconclusive(&mut self, note: String) {
        self.inconclusive += 1;
        if self.inconclusive_notes.len() < 10 {
            self.inconclusive_notes.push(note);
        }
    }

    pub fn sample(&mut self, v: Value) {
        if self.samples.len() < 6 {
            self.samples.push(v);
        }
    }

    pub fn set(&mut self, k: &str, v: Value) {
        self.extra.insert(k.to_string(), v);
    }

    pub fn add(&mut self, k: &str, n: u64) {
        let cur = self.extra.get(k).and_then(|v| v.as_u64()).unwrap_or(0);
        self.extra.insert(k.to_string(), json!(cur + n));
    }

    /// keeps the maximum (keys starting with "max_" are merged by maximum, not by sum)
    pub fn maxset(&mut self, k: &str, n: u64) {
        debug_assert!(k.starts_with("max_"));
        let cur = self.extra.get(k).and_then(|v| v.as_u64()).unwrap_or(0);
        if n > cur {
            self.extra.insert(k.to_string(), json!(n));
        }
    }

    /// merge a worker's partial report into this one
    pub fn merge(&mut self, other: Report) {
        self.evaluations += other.evaluations;
        self.distinct.extend(other.distinct);
        for s in other.samples {
            self.sample(s);
        }
        for (k, v) in other.extra {
            match (self.extra.get(&k).cloned(), &v) {
                (Some(Value::Number(a)), Value::Number(b)) if a.is_u64() && b.is_u64() => {
                    let s = if k.starts_with("max_") {
                        a.as_u64().unwrap().max(b.as_u64().unwrap())
                    } else {
                        a.as_u64().unwrap() + b.as_u64().unwrap()
                    };
                    self.extra.insert(k, json!(s));
                }
                (Some(Value::Object(mut a)), Value::Object(b)) => {
                    for (kk, vv) in b {
                        let cur = a.get(kk).and_then(|x| x.as_u64()).unwrap_or(0);
                        a.insert(kk.clone(), json!(cur + vv.as_u64().unwrap_or(0)));
                    }
                    self.extra.insert(k, Value::Object(a));
                }
                (None, _) => {
                    self.extra.insert(k, v);
                }
                _ => {}
            }
        }
        self.total_violations += other.total_violations;
        for v in other.violations {
            if self.violations.len() < MAX_KEPT_VIOLATIONS {
                self.violations.push(v);
            }
        }
        for (k, n) in other.known {
            *self.known.entry(k).or_default() += n;
        }
        self.inconclusive += other.inconclusive;
        for n in other.inconclusive_notes {
            if self.inconclusive_notes.len() < 10 {
                self.inconclusive_notes.push(n);
            }
        }
    }

    /// Writes the evidence file and replay files, prints the verdict lines, returns the exit code.
    pub fn finish(mut self) -> i32 {
        let dir = verif_dir();
        let _ = std::fs::create_dir_all(format!("{}/evidence", dir));
        let _ = std::fs::create_dir_all(format!("{}/replays", dir));
        let wall = self.t0.elapsed().as_secs_f64();

        // known findings: a signature listed as `known` for this property is reported and
        // tolerated; any other signature is a violation
        let listed = load_known(&dir, self.prop);
        let mut known_lines = Vec::new();
        let observed = std::mem::take(&mut self.known);
        for (sig, n) in &observed {
            if !listed.iter().any(|(s, _)| s == sig) {
                self.violation(
                    format!("finding with signature '{}' is not listed in known_findings.json ({} times)", sig, n),
                    json!({"signature": sig, "count": n}),
                );
            }
        }
        for (sig, what) in &listed {
            let n = observed.get(sig).copied().unwrap_or(0);
            known_lines.push(format!(
                "KNOWN-FINDING: property={} {} [signature={} observed={}]",
                self.prop, what, sig, n
            ));
        }

        let nontrivial = self.distinct.len() as u64;
        let mut cov = Map::new();
        cov.insert("evaluations".into(), json!(self.evaluations));
        cov.insert("distinct_nontrivial".into(), json!(nontrivial));
        cov.insert("rule".into(), json!(self.rule));
        if self.samples.is_empty() {
            self.samples.push(json!("(no case was explored)"));
        }
        cov.insert("samples".into(), Value::Array(self.samples.clone()));
        cov.insert("inconclusive".into(), json!(self.inconclusive));
        if !self.inconclusive_notes.is_empty() {
            cov.insert("inconclusive_notes".into(), json!(self.inconclusive_notes));
        }
        cov.insert(
            "known_findings_observed".into(),
            Value::Object(observed.iter().map(|(k, v)| (k.clone(), json!(v))).collect()),
        );
        for (k, v) in &self.extra {
            cov.insert(k.clone(), v.clone());
        }

        let mut replay_paths = Vec::new();
        for (i, v) in self.violations.iter().enumerate() {
            let path = format!("{}/replays/{}-{}-{}-{}.json", dir, self.prop, self.tier.name(), self.seed, i);
            let body = json!({"property": self.prop, "tier": self.tier.name(), "seed": self.seed,
                              "what": v.what, "replay": v.replay});
            let _ = std::fs::write(&path, serde_json::to_string_pretty(&body).unwrap());
            replay_paths.push(path);
        }

        let decided = nontrivial >= self.min_nontrivial && self.evaluations > 0;
        let verdict = if self.total_violations > 0 {
            "violated"
        } else if !decided {
            "undecided: too few non-trivial cases were observed"
        } else {
            "held on everything explored"
        };
        cov.insert("verdict".into(), json!(verdict));

        let ev = json!({
            "property_id": self.prop,
            "tier": self.tier.name(),
            "seed": self.seed,
            "level": self.level,
            "coverage": Value::Object(cov),
            "assumptions": self.assumptions,
            "wall_s": (wall * 1000.0).round() / 1000.0,
            "violations": self.total_violations,
        });
        let evpath = format!("{}/evidence/{}.json", dir, self.prop);
        if let Err(e) = std::fs::write(&evpath, serde_json::to_string_pretty(&ev).unwrap()) {
            eprintln!("cannot write {}: {}", evpath, e);
        }

        println!(
            "[{}] tier={} seed={} evaluations={} distinct_nontrivial={} inconclusive={} violations={} wall={:.1}s",
            self.prop,
            self.tier.name(),
            self.seed,
            self.evaluations,
            nontrivial,
            self.inconclusive,
            self.total_violations,
            wall
        );
        for (k, v) in &self.extra {
            let s = v.to_string();
            if s.len() < 300 {
                println!("    {} = {}", k, s);
            }
        }
        for l in &known_lines {
            println!("{}", l);
        }
        for n in &self.inconclusive_notes {
            println!("INCONCLUSIVE: {}", n);
        }
        if self.total_violations > 0 {
            for (i, v) in self.violations.iter().enumerate() {
                println!("    violation: {}", v.what);
                println!("VIOLATION property={} replay={}", self.prop, replay_paths[i]);
            }
            return 1;
        }
        if !decided {
            println!(
                "UNDECIDED property={}: only {} distinct non-trivial cases (minimum {})",
                self.prop, nontrivial, self.min_nontrivial
            );
            return 2;
        }
        0
    }
}

/// `known` entries of known_findings.json for one property: (signature, what_fails)
pub fn load_known(dir: &str, prop: &str) -> Vec<(String, String)> {
    let path = format!("{}/known_findings.json", dir);
    let txt = match std::fs::read_to_string(&path) {
        Ok(t) => t,
        Err(_) => return vec![],
    };
    let v: Value = match serde_json::from_str(&txt) {
        Ok(v) => v,
        Err(e) => {
            eprintln!("known_findings.json unreadable: {}", e);
            return vec![];
        }
    };
    let mut out = Vec::new();
    if let Some(arr) = v.get("findings").and_then(|x| x.as_array()) {
        for f in arr {
            if f.get("status").and_then(|x| x.as_str()) == Some("known")
                && f.get("property").and_then(|x| x.as_str()) == Some(prop)
            {
                out.push((
                    f.get("signature").and_then(|x| x.as_str()).unwrap_or("").to_string(),
                    f.get("what_fails").and_then(|x| x.as_str()).unwrap_or("").to_string(),
                ));
            }
        }
    }
    out
}

/// Runs `f(worker_index)` on `n` threads and merges the partial reports.
pub fn parallel(n: usize, base: &mut Report, f: impl Fn(usize) -> Report + Sync) {
    let parts: Vec<Report> = std::thread::scope(|s| {
        let hs: Vec<_> = (0..n)
            .map(|i| {
                let f = &f;
                s.spawn(move || f(i))
            })
            .collect();
        hs.into_iter().map(|h| h.join().expect("worker thread died")).collect()
    });
    for p in parts {
        base.merge(p);
    }
}

pub fn ncpu() -> usize {
    std::env::var("PLV_THREADS")
        .ok()
        .and_then(|s| s.parse().ok())
        .unwrap_or_else(|| std::thread::available_parallelism().map(|n| n.get()).unwrap_or(4))
}
