//! Order helpers and the *statement-derived* per-order machine.
//!
//! Nothing in here calls into pricelevel's logic: orders are taken apart and rebuilt by pattern
//! matching on the public enum, and the matching rules are written from the text of property
//! C05 (not from `match_against`).

use pricelevel::{OrderId, OrderType, PegReferenceType, Side, TimeInForce};

pub type Order = OrderType<()>;

#[derive(Clone, Copy, PartialEq, Eq, Hash, Debug, PartialOrd, Ord)]
pub enum Kind {
    Standard,
    Iceberg,
    PostOnly,
    Trailing,
    Pegged,
    M2L,
    Reserve,
}

pub const KINDS: [Kind; 7] = [
    Kind::Standard,
    Kind::Iceberg,
    Kind::PostOnly,
    Kind::Trailing,
    Kind::Pegged,
    Kind::M2L,
    Kind::Reserve,
];

impl Kind {
    pub fn name(self) -> &'static str {
        match self {
            Kind::Standard => "Standard",
            Kind::Iceberg => "Iceberg",
            Kind::PostOnly => "PostOnly",
            Kind::Trailing => "TrailingStop",
            Kind::Pegged => "Pegged",
            Kind::M2L => "MarketToLimit",
            Kind::Reserve => "Reserve",
        }
    }
    pub fn idx(self) -> usize {
        self as usize
    }
    /// has a hidden part
    pub fn layered(self) -> bool {
        matches!(self, Kind::Iceberg | Kind::Reserve)
    }
    /// a same-price quantity amend rewrites the displayed quantity (C07)
    pub fn amendable(self) -> bool {
        matches!(self, Kind::Standard | Kind::PostOnly | Kind::Iceberg)
    }
}

#[derive(Clone, Copy, Debug)]
pub struct Params {
    pub thr: u64,
    pub amt: Option<u64>,
    pub auto: bool,
    pub trail: u64,
    pub lastref: u64,
    pub peg_off: i64,
    pub peg_ref: PegReferenceType,
}

impl Default for Params {
    fn default() -> Self {
        Params {
            thr: 0,
            amt: None,
            auto: true,
            trail: 5,
            lastref: 100,
            peg_off: -3,
            peg_ref: PegReferenceType::BestBid,
        }
    }
}

#[allow(clippy::too_many_arguments)]
pub fn mk(
    kind: Kind,
    id: OrderId,
    price: u64,
    vis: u64,
    hid: u64,
    side: Side,
    ts: u64,
    tif: TimeInForce,
    p: &Params,
) -> Order {
    match kind {
        Kind::Standard => OrderType::Standard {
            id,
            price,
            quantity: vis,
            side,
            timestamp: ts,
            time_in_force: tif,
            extra_fields: (),
        },
        Kind::PostOnly => OrderType::PostOnly {
            id,
            price,
            quantity: vis,
            side,
            timestamp: ts,
            time_in_force: tif,
            extra_fields: (),
        },
        Kind::M2L => OrderType::MarketToLimit {
            id,
            price,
            quantity: vis,
            side,
            timestamp: ts,
            time_in_force: tif,
            extra_fields: (),
        },
        Kind::Trailing => OrderType::TrailingStop {
            id,
            price,
            quantity: vis,
            side,
            timestamp: ts,
            time_in_force: tif,
            trail_amount: p.trail,
            last_reference_price: p.lastref,
            extra_fields: (),
        },
        Kind::Pegged => OrderType::PeggedOrder {
            id,
            price,
            quantity: vis,
            side,
            timestamp: ts,
            time_in_force: tif,
            reference_price_offset: p.peg_off,
            reference_price_type: p.peg_ref,
            extra_fields: (),
        },
        Kind::Iceberg => OrderType::IcebergOrder {
            id,
            price,
            visible_quantity: vis,
            hidden_quantity: hid,
            side,
            timestamp: ts,
            time_in_force: tif,
            extra_fields: (),
        },
        Kind::Reserve => OrderType::ReserveOrder {
            id,
            price,
            visible_quantity: vis,
            hidden_quantity: hid,
            side,
            timestamp: ts,
            time_in_force: tif,
            replenish_threshold: p.thr,
            replenish_amount: p.amt,
            auto_replenish: p.auto,
            extra_fields: (),
        },
    }
}

pub fn kind_of(o: &Order) -> Kind {
    match o {
        OrderType::Standard { .. } => Kind::Standard,
        OrderType::IcebergOrder { .. } => Kind::Iceberg,
        OrderType::PostOnly { .. } => Kind::PostOnly,
        OrderType::TrailingStop { .. } => Kind::Trailing,
        OrderType::PeggedOrder { .. } => Kind::Pegged,
        OrderType::MarketToLimit { .. } => Kind::M2L,
        OrderType::ReserveOrder { .. } => Kind::Reserve,
    }
}

/// displayed quantity, read by pattern matching
pub fn vis(o: &Order) -> u64 {
    match o {
        OrderType::Standard { quantity, .. }
        | OrderType::PostOnly { quantity, .. }
        | OrderType::TrailingStop { quantity, .. }
        | OrderType::PeggedOrder { quantity, .. }
        | OrderType::MarketToLimit { quantity, .. } => *quantity,
        OrderType::IcebergOrder {
            visible_quantity, ..
        }
        | OrderType::ReserveOrder {
            visible_quantity, ..
        } => *visible_quantity,
    }
}

/// hidden quantity, read by pattern matching
pub fn hid(o: &Order) -> u64 {
    match o {
        OrderType::IcebergOrder {
            hidden_quantity, ..
        }
        | OrderType::ReserveOrder {
            hidden_quantity, ..
        } => *hidden_quantity,
        _ => 0,
    }
}

pub fn total(o: &Order) -> u128 {
    vis(o) as u128 + hid(o) as u128
}

pub fn id_of(o: &Order) -> OrderId {
    match o {
        OrderType::Standard { id, .. }
        | OrderType::IcebergOrder { id, .. }
        | OrderType::PostOnly { id, .. }
        | OrderType::TrailingStop { id, .. }
        | OrderType::PeggedOrder { id, .. }
        | OrderType::MarketToLimit { id, .. }
        | OrderType::ReserveOrder { id, .. } => *id,
    }
}

pub fn ts_of(o: &Order) -> u64 {
    match o {
        OrderType::Standard { timestamp, .. }
        | OrderType::IcebergOrder { timestamp, .. }
        | OrderType::PostOnly { timestamp, .. }
        | OrderType::TrailingStop { timestamp, .. }
        | OrderType::PeggedOrder { timestamp, .. }
        | OrderType::MarketToLimit { timestamp, .. }
        | OrderType::ReserveOrder { timestamp, .. } => *timestamp,
    }
}

pub fn side_of(o: &Order) -> Side {
    match o {
        OrderType::Standard { side, .. }
        | OrderType::IcebergOrder { side, .. }
        | OrderType::PostOnly { side, .. }
        | OrderType::TrailingStop { side, .. }
        | OrderType::PeggedOrder { side, .. }
        | OrderType::MarketToLimit { side, .. }
        | OrderType::ReserveOrder { side, .. } => *side,
    }
}

pub fn price_of(o: &Order) -> u64 {
    match o {
        OrderType::Standard { price, .. }
        | OrderType::IcebergOrder { price, .. }
        | OrderType::PostOnly { price, .. }
        | OrderType::TrailingStop { price, .. }
        | OrderType::PeggedOrder { price, .. }
        | OrderType::MarketToLimit { price, .. }
        | OrderType::ReserveOrder { price, .. } => *price,
    }
}

pub fn opposite(s: Side) -> Side {
    match s {
        Side::Buy => Side::Sell,
        Side::Sell => Side::Buy,
    }
}

/// (threshold, amount, auto) of a reserve order
pub fn reserve_params(o: &Order) -> Option<(u64, Option<u64>, bool)> {
    match o {
        OrderType::ReserveOrder {
            replenish_threshold,
            replenish_amount,
            auto_replenish,
            ..
        } => Some((*replenish_threshold, *replenish_amount, *auto_replenish)),
        _ => None,
    }
}

/// the same order with other quantities; every identity / parameter field is carried over
pub fn with_qty(o: &Order, v: u64, h: u64) -> Order {
    let mut n = *o;
    match &mut n {
        OrderType::Standard { quantity, .. }
        | OrderType::PostOnly { quantity, .. }
        | OrderType::TrailingStop { quantity, .. }
        | OrderType::PeggedOrder { quantity, .. }
        | OrderType::MarketToLimit { quantity, .. } => {
            *quantity = v;
        }
        OrderType::IcebergOrder {
            visible_quantity,
            hidden_quantity,
            ..
        }
        | OrderType::ReserveOrder {
            visible_quantity,
            hidden_quantity,
            ..
        } => {
            *visible_quantity = v;
            *hidden_quantity = h;
        }
    }
    n
}

/// the same order under another id
pub fn with_id(o: &Order, new_id: OrderId) -> Order {
    let mut n = *o;
    match &mut n {
        OrderType::Standard { id, .. }
        | OrderType::IcebergOrder { id, .. }
        | OrderType::PostOnly { id, .. }
        | OrderType::TrailingStop { id, .. }
        | OrderType::PeggedOrder { id, .. }
        | OrderType::MarketToLimit { id, .. }
        | OrderType::ReserveOrder { id, .. } => *id = new_id,
    }
    n
}

/// true iff `a` and `b` differ at most in their quantities
pub fn same_identity(a: &Order, b: &Order) -> bool {
    with_qty(a, vis(b), hid(b)) == *b
}

/// 128-bit key of an order id (for maps, hashing, hook correlation)
pub fn key(id: &OrderId) -> u128 {
    u128::from_be_bytes(id.as_bytes())
}

/// deterministic order id number `n`; odd numbers are ULIDs, even ones UUIDs, so both id
/// formats are always in play
pub fn oid(n: u64) -> OrderId {
    if n % 2 == 1 {
        OrderId::from_ulid(ulid::Ulid::from(((n as u128) << 64) | 0x5eed_0000_0000_0000u128 | n as u128))
    } else {
        OrderId::from_u64(n.wrapping_add(0x0100_0000_0000_0000))
    }
}

pub fn short(o: &Order) -> String {
    let id = key(&id_of(o));
    let k = kind_of(o);
    match reserve_params(o) {
        Some((t, a, au)) => format!(
            "{}#{:x}[{}/{} ts{} thr{} amt{:?} auto{}]",
            k.name(),
            id >> 64,
            vis(o),
            hid(o),
            ts_of(o),
            t,
            a,
            au
        ),
        None => format!(
            "{}#{:x}[{}/{} ts{}]",
            k.name(),
            id >> 64,
            vis(o),
            hid(o),
            ts_of(o)
        ),
    }
}

// ---------------------------------------------------------------------------------------------
// The per-order machine, from the statement of C05
// ---------------------------------------------------------------------------------------------

pub const DEFAULT_AMOUNT: u64 = 80;

#[derive(Clone, Copy, Debug, PartialEq, Eq)]
pub enum Fate {
    /// the order stays in the book in this state
    Stay(Order),
    /// the order leaves the book; `discarded` hidden units go with it (only a non-replenishing
    /// reserve order can take hidden quantity away)
    Leave { discarded: u64 },
}

#[derive(Clone, Copy, Debug, PartialEq, Eq)]
pub struct Step {
    pub consumed: u64,
    pub fate: Fate,
    /// displayed part was replenished from hidden quantity (=> moves to the back, C04)
    pub replenished: u64,
}

/// Canonical outcome of offering `r` incoming units to resting order `o`.
/// Where the statement leaves freedom (size of an iceberg tranche: "no larger than the exhausted
/// one") the documented choice min(exhausted display, hidden) is taken.
pub fn spec_fill(o: &Order, r: u64) -> Step {
    let d = vis(o);
    let h = hid(o);
    let consumed = r.min(d);
    let nd = d - consumed;
    match kind_of(o) {
        Kind::Iceberg => {
            if nd > 0 {
                Step {
                    consumed,
                    fate: Fate::Stay(with_qty(o, nd, h)),
                    replenished: 0,
                }
            } else if h == 0 {
                Step {
                    consumed,
                    fate: Fate::Leave { discarded: 0 },
                    replenished: 0,
                }
            } else {
                // display exhausted, something hidden: new tranche no larger than the exhausted one
                let t = d.min(h);
                Step {
                    consumed,
                    fate: Fate::Stay(with_qty(o, t, h - t)),
                    replenished: t,
                }
            }
        }
        Kind::Reserve => {
            let (thr, amt, auto) = reserve_params(o).unwrap();
            let thr = if auto { thr.max(1) } else { thr };
            let amount = amt.unwrap_or(DEFAULT_AMOUNT).min(h);
            let trigger = auto && h > 0 && (nd == 0 || nd < thr);
            if trigger {
                Step {
                    consumed,
                    fate: Fate::Stay(with_qty(o, nd + amount, h - amount)),
                    replenished: amount,
                }
            } else if nd == 0 {
                Step {
                    consumed,
                    fate: Fate::Leave { discarded: h },
                    replenished: 0,
                }
            } else {
                Step {
                    consumed,
                    fate: Fate::Stay(with_qty(o, nd, h)),
                    replenished: 0,
                }
            }
        }
        _ => {
            if nd == 0 {
                Step {
                    consumed,
                    fate: Fate::Leave { discarded: 0 },
                    replenished: 0,
                }
            } else {
                Step {
                    consumed,
                    fate: Fate::Stay(with_qty(o, nd, h)),
                    replenished: 0,
                }
            }
        }
    }
}

/// The C05 relation on one call of `match_against`: accepts every outcome the statement
/// allows, rejects everything else.  `res` = (consumed, updated, hidden_reduced, remaining).
pub fn rules_ok(o: &Order, q: u64, res: &(u64, Option<Order>, u64, u64)) -> Result<(), String> {
    let (consumed, updated, hidden_reduced, remaining) = res;
    let d = vis(o);
    let h = hid(o);
    let want = q.min(d);
    if *consumed != want {
        return Err(format!("consumed {} != min(incoming {}, displayed {})", consumed, q, d));
    }
    if *remaining != q - want {
        return Err(format!("remaining {} != incoming {} - consumed {}", remaining, q, want));
    }
    let nd = d - want;
    if let Some(u) = updated {
        if !same_identity(o, u) {
            return Err("an identity / parameter field changed".into());
        }
        if total(u) != total(o) - want as u128 {
            return Err(format!(
                "staying order not conserved: {}+{} after, {}+{} before, consumed {}",
                vis(u),
                hid(u),
                d,
                h,
                want
            ));
        }
        if hid(u) > h {
            return Err("hidden quantity grew".into());
        }
        if *hidden_reduced != h - hid(u) {
            return Err(format!(
                "reported hidden reduction {} != actual {}",
                hidden_reduced,
                h - hid(u)
            ));
        }
    } else if *hidden_reduced != 0 {
        return Err("hidden reduction reported for an order that leaves".into());
    }
    match kind_of(o) {
        Kind::Iceberg => {
            if nd > 0 {
                match updated {
                    Some(u) if vis(u) == nd && hid(u) == h => Ok(()),
                    _ => Err("iceberg with display left must stay, display reduced, hidden untouched".into()),
                }
            } else if h == 0 {
                match updated {
                    None => Ok(()),
                    Some(_) => Err("iceberg with display exhausted and nothing hidden must leave".into()),
                }
            } else {
                match updated {
                    None => Err("iceberg with hidden quantity left must not leave".into()),
                    Some(u) => {
                        let t = vis(u);
                        let max = d.min(h);
                        if d > 0 && (t < 1 || t > max) {
                            Err(format!("iceberg tranche {} outside 1..={}", t, max))
                        } else if d == 0 && t != 0 {
                            // nothing was displayed, so "no larger than the exhausted one" means 0
                            Err(format!("iceberg tranche {} larger than the exhausted display 0", t))
                        } else {
                            Ok(())
                        }
                    }
                }
            }
        }
        Kind::Reserve => {
            let (thr, amt, auto) = reserve_params(o).unwrap();
            let thr1 = if auto { thr.max(1) } else { thr };
            let amount = amt.unwrap_or(DEFAULT_AMOUNT).min(h);
            let trigger = auto && h > 0 && (nd == 0 || nd < thr1);
            // q = 0 on a reserve already below its threshold: nothing was consumed; the
            // statement does not say whether this counts as "falls below" - accept both
            let lenient = q == 0 && nd > 0;
            if trigger {
                match updated {
                    Some(u) if vis(u) == nd + amount && hid(u) == h - amount => Ok(()),
                    Some(u) if lenient && vis(u) == nd && hid(u) == h => Ok(()),
                    _ => Err(format!(
                        "reserve must replenish by {} (display {} hidden {})",
                        amount, nd, h
                    )),
                }
            } else if nd == 0 {
                match updated {
                    None => Ok(()),
                    Some(_) => Err("reserve with display exhausted and no replenishment must leave".into()),
                }
            } else {
                match updated {
                    Some(u) if vis(u) == nd && hid(u) == h => Ok(()),
                    _ => Err("reserve above threshold (or not auto) must just shrink".into()),
                }
            }
        }
        _ => {
            if nd == 0 {
                match updated {
                    None => Ok(()),
                    // a plain order with nothing displayed and nothing consumed: "leaves when
                    // filled" - staying unchanged is tolerated only when nothing was offered
                    Some(u) if q == 0 && d == 0 && vis(u) == 0 => Ok(()),
                    Some(_) => Err("plain order fully filled must leave".into()),
                }
            } else {
                match updated {
                    Some(u) if vis(u) == nd => Ok(()),
                    _ => Err(format!("plain order must shrink to {}", nd)),
                }
            }
        }
    }
}
