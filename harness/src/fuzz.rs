//! Thorough-tier libFuzzer pass for C18 (coverage-guided, ASan + overflow checks on by default):
//! `cargo +nightly fuzz run parse` in harness/fuzz, corpus seeded with valid encodings; every
//! crash / timeout artifact is fed back through the plain harness before it is reported.

use crate::codec::{self, ParseFn};
use crate::report::{verif_dir, Report};
use crate::rng::Rng;
use serde_json::json;
use std::process::Command;
use std::time::Instant;

/// selector byte -> entry point; must match harness/fuzz/fuzz_targets/parse.rs
pub const FUZZ_ORDER: [&str; 30] = [
    "OrderType", "OrderUpdate", "OrderId", "Side", "TimeInForce", "PegReferenceType", "Transaction", "TransactionList",
    "MatchResult", "PriceLevel", "PriceLevelSnapshot", "PriceLevelStatistics", "OrderQueue",
    "json:OrderType", "json:OrderUpdate", "json:OrderId", "json:TimeInForce", "json:Transaction", "json:TransactionList",
    "json:MatchResult", "json:PriceLevel", "json:PriceLevelData", "json:PriceLevelSnapshot", "json:PriceLevelSnapshotPackage",
    "json:PriceLevelStatistics", "json:OrderQueue", "from_snapshot_json", "json:Side", "json:UuidGenerator", "SnapshotPackage::from_json",
];

fn entry(name: &str) -> Option<ParseFn> {
    codec::text_entries()
        .into_iter()
        .chain(codec::json_entries())
        .find(|(n, _)| *n == name)
        .map(|(_, f)| f)
}

pub fn run(rep: &mut Report, secs: u64, forks: usize) {
    let dir = format!("{}/harness", verif_dir());
    let corpus = format!("{}/fuzz/corpus/parse", dir);
    let artifacts = format!("{}/fuzz/artifacts/parse", dir);
    let _ = std::fs::create_dir_all(&corpus);
    let _ = std::fs::remove_dir_all(&artifacts);
    // seed corpus: valid encodings behind their selector byte
    let mut rng = Rng::derive(rep.seed ^ 0xf022, 1);
    let mut seeds = codec::seeds_text(&mut rng, 4);
    seeds.extend(codec::seeds_json(&mut rng, 4));
    let mut n_seed = 0;
    for (i, (name, enc)) in seeds.iter().enumerate() {
        if let Some(sel) = FUZZ_ORDER.iter().position(|n| n == name) {
            let mut bytes = vec![sel as u8];
            bytes.extend_from_slice(enc.as_bytes());
            if std::fs::write(format!("{}/seed-{:04}", corpus, i), bytes).is_ok() {
                n_seed += 1;
            }
        }
    }
    let t0 = Instant::now();
    let out = Command::new("cargo")
        .current_dir(&dir)
        .env("CARGO_NET_OFFLINE", "true")
        .args(["+nightly", "fuzz", "run", "parse", "--"])
        .arg(format!("-max_total_time={}", secs))
        .arg("-timeout=10")
        .arg(format!("-fork={}", forks))
        .arg("-len_control=0")
        .arg("-max_len=2048")
        .arg("-print_final_stats=1")
        .output();
    let out = match out {
        Ok(o) => o,
        Err(e) => {
            rep.inconclusive(format!("cargo fuzz could not be started: {}", e));
            return;
        }
    };
    let err = String::from_utf8_lossy(&out.stderr).to_string();
    // "#123456: cov: 2345 ft: ..." lines of the fork driver
    let mut execs: u64 = 0;
    let mut cov: u64 = 0;
    for l in err.lines() {
        if let Some(rest) = l.strip_prefix('#') {
            let mut it = rest.split(|c: char| !c.is_ascii_digit()).filter(|x| !x.is_empty());
            if let Some(n) = it.next().and_then(|x| x.parse::<u64>().ok()) {
                execs = execs.max(n);
            }
            if let Some(p) = l.find("cov: ") {
                if let Some(c) = l[p + 5..].split_whitespace().next().and_then(|x| x.parse::<u64>().ok()) {
                    cov = cov.max(c);
                }
            }
        }
    }
    rep.add("libfuzzer_executions", execs);
    rep.set("libfuzzer_coverage_edges", json!(cov));
    rep.set("libfuzzer_seed_corpus", json!(n_seed));
    rep.set("libfuzzer_wall_s", json!(t0.elapsed().as_secs()));
    rep.evaluations += execs;
    // artifacts: confirm each through the plain harness
    let mut confirmed = 0;
    let mut unconfirmed = 0;
    if let Ok(rd) = std::fs::read_dir(&artifacts) {
        for f in rd.flatten() {
            let bytes = match std::fs::read(f.path()) {
                Ok(b) => b,
                Err(_) => continue,
            };
            if bytes.is_empty() {
                continue;
            }
            let name = FUZZ_ORDER[(bytes[0] % 32) as usize % FUZZ_ORDER.len()];
            let name = if (bytes[0] % 32) as usize >= FUZZ_ORDER.len() { "SnapshotPackage::from_json" } else { name };
            let input = match std::str::from_utf8(&bytes[1..]) {
                Ok(s) => s.to_string(),
                Err(_) => continue,
            };
            let kind = f.file_name().to_string_lossy().to_string();
            let fun = match entry(name) {
                Some(x) => x,
                None => continue,
            };
            if kind.starts_with("timeout") || kind.starts_with("slow") {
                rep.violation(
                    format!("libFuzzer: {} did not return within 10 s on {:?}", name, &input[..input.char_indices().nth(120).map(|x| x.0).unwrap_or(input.len())]),
                    json!({"engine": "libfuzzer", "property": "C18", "entry": name, "input": input, "artifact": kind}),
                );
                confirmed += 1;
                continue;
            }
            match crate::hook::quiet_catch(|| fun(&input)) {
                Err(p) => {
                    confirmed += 1;
                    rep.violation(
                        format!(
                            "libFuzzer + harness: {} panicked on {:?}: {}",
                            name,
                            &input[..input.char_indices().nth(120).map(|x| x.0).unwrap_or(input.len())],
                            crate::sched::panic_message(&*p)
                        ),
                        json!({"engine": "libfuzzer", "property": "C18", "entry": name, "input": input, "artifact": kind}),
                    );
                }
                Ok(_) => {
                    unconfirmed += 1;
                    rep.inconclusive(format!("libFuzzer artifact {} ({}) did not reproduce in the plain harness (sanitizer-only finding or resource limit)", kind, name));
                }
            }
        }
    }
    rep.set("libfuzzer_artifacts_confirmed", json!(confirmed));
    rep.set("libfuzzer_artifacts_unconfirmed", json!(unconfirmed));
    if !out.status.success() && confirmed == 0 && unconfirmed == 0 {
        let tail: String = err.lines().rev().take(6).collect::<Vec<_>>().into_iter().rev().collect::<Vec<_>>().join(" | ");
        rep.inconclusive(format!("cargo fuzz exited with {:?} and left no artifact: {}", out.status.code(), &tail[..tail.len().min(400)]));
    }
}
