//! Checks decided by the single-threaded history engine: C01 C02 C04 C05(level part) C06 C07 C15(seq).

use crate::hseq::{self, GenCfg, HOp, HRes, Trace, TsMode};
use crate::model;
use crate::mon::{self, Finding};
use crate::report::{ncpu, parallel, Report, Tier};
use crate::rng::Rng;
use serde_json::{json, Value};
use std::collections::BTreeMap;

pub fn trace_json(tr: &Trace) -> Value {
    json!(tr.describe())
}

fn replay_json(prop: &str, cfg: &GenCfg, case: u64, seed: u64, tr: &Trace, fd: &Finding) -> Value {
    json!({
        "engine": "hseq",
        "property": prop,
        "mode": cfg.name,
        "case": case,
        "seed": seed,
        "failing_op_index": fd.at,
        "finding": fd.what,
        "history": tr.describe(),
    })
}

/// One sequential check = a set of generation modes + a judge over recorded traces.
pub struct SeqCheck {
    pub prop: &'static str,
    pub cfgs: Vec<GenCfg>,
    /// returns (findings, non_trivial)
    pub judge: fn(&Trace, &mut Report) -> (Vec<Finding>, bool),
}

pub fn run_seq(chk: &SeqCheck, rep: &mut Report, n: u64) {
    let seed = rep.seed;
    let tier = rep.tier;
    let nw = ncpu();
    let prop = chk.prop;
    parallel(nw, rep, |w| {
        let mut part = Report::new(prop, tier, seed, "exploration");
        let mut cells: BTreeMap<String, u64> = BTreeMap::new();
        let mut modes: BTreeMap<String, u64> = BTreeMap::new();
        let mut scales: BTreeMap<String, u64> = BTreeMap::new();
        let mut i = w as u64;
        while i < n {
            let cfg = &chk.cfgs[(i % chk.cfgs.len() as u64) as usize].scaled(seed, i);
            let tr = hseq::gen_and_run(cfg, Rng::derive(seed, i));
            part.evaluations += 1;
            if !cfg.scale.is_empty() {
                *scales.entry(cfg.scale.to_string()).or_default() += 1;
            }
            let widest = tr.recs.iter().map(|r| r.after.orders.len()).max().unwrap_or(0) as u64;
            part.maxset("max_resting_orders_seen", widest);
            part.maxset("max_operations_in_one_history", tr.recs.len() as u64);
            let most_tx = tr
                .recs
                .iter()
                .filter_map(|r| match &r.res {
                    hseq::HRes::Matched(m) => Some(m.transactions.as_vec().len() as u64),
                    _ => None,
                })
                .max()
                .unwrap_or(0);
            part.maxset("max_transactions_in_one_match", most_tx);
            *modes.entry(cfg.name.to_string()).or_default() += 1;
            part.add("operations", tr.recs.len() as u64);
            hseq::kind_cells(&tr, &mut cells);
            let (fds, nontrivial) = (chk.judge)(&tr, &mut part);
            if prop != "C06" {
                if let Some(r) = tr.recs.iter().find(|r| matches!(r.res, hseq::HRes::Overrun)) {
                    // not this property's subject (C06 judges termination): the rest of the
                    // history was not explored
                    part.inconclusive(format!("[{} case {}] {} exceeded the step budget; history cut short", cfg.name, i, r.op.describe()));
                }
            }
            if nontrivial {
                part.distinct.insert(tr.hash());
            }
            if i < 3 * chk.cfgs.len() as u64 && part.samples.len() < 3 {
                part.sample(json!({"mode": cfg.name, "case": i, "history": tr.describe()}));
            }
            for fd in fds.iter().take(3) {
                part.violation(
                    format!("[{} case {}] {}", cfg.name, i, fd.what),
                    replay_json(prop, cfg, i, seed, &tr, fd),
                );
            }
            i += nw as u64;
        }
        part.set("per_cell", json!(cells));
        part.set("histories_per_mode", json!(modes));
        part.set("histories_per_scale_tier", json!(scales));
        part
    });
}

/// Re-executes one recorded case (same generator, same seed) and prints the verdict.
pub fn replay_seq(chk: &SeqCheck, case: u64, seed: u64) -> i32 {
    let cfg = &chk.cfgs[(case % chk.cfgs.len() as u64) as usize].scaled(seed, case);
    let tr = hseq::gen_and_run(cfg, Rng::derive(seed, case));
    let mut scratch = Report::new(chk.prop, Tier::Quick, seed, "exploration");
    let (fds, _) = (chk.judge)(&tr, &mut scratch);
    for l in tr.describe() {
        println!("  {}", l);
    }
    if fds.is_empty() {
        println!("replay: no finding (property held on this case)");
        0
    } else {
        for fd in &fds {
            println!("replay: op #{}: {}", fd.at, fd.what);
        }
        1
    }
}

// ---------------------------------------------------------------------------------------------
// generation modes
// ---------------------------------------------------------------------------------------------

pub fn modes_general() -> Vec<GenCfg> {
    let mut v = Vec::new();
    // mixed, everything on
    let mut a = GenCfg::base("mixed");
    a.op_w = [28, 30, 8, 10, 5, 5, 4, 0, 6];
    v.push(a);
    // few orders, many matches: fill -> amend -> fill compositions
    let mut b = GenCfg::base("few-orders-many-matches");
    b.max_resting = 3;
    b.op_w = [15, 45, 5, 15, 5, 5, 2, 0, 4];
    b.len = (10, 60);
    v.push(b);
    // zero-heavy
    let mut c = GenCfg::base("zero-heavy");
    c.zero_pct = 30;
    c.op_w = [25, 35, 5, 20, 3, 3, 2, 0, 4];
    v.push(c);
    // layered orders only, replenish then cancel / amend
    let mut d = GenCfg::base("layered");
    d.kind_w = [0, 5, 0, 0, 0, 0, 5];
    d.op_w = [20, 40, 10, 15, 3, 3, 3, 0, 5];
    d.qmax = 12;
    v.push(d);
    // the three plain types whose partial fill used to be wrong
    let mut e = GenCfg::base("plain-others");
    e.kind_w = [1, 0, 1, 4, 4, 4, 0];
    e.op_w = [25, 45, 8, 8, 3, 3, 3, 0, 4];
    v.push(e);
    // long histories
    let mut g = GenCfg::base("long");
    g.len = (40, 80);
    g.op_w = [25, 30, 8, 12, 5, 5, 4, 0, 8];
    v.push(g);
    let mut vl = GenCfg::base("very-long");
    vl.len = (150, 400);
    vl.max_resting = 10;
    vl.op_w = [26, 30, 9, 12, 5, 5, 4, 0, 4];
    v.push(vl);
    // boundary magnitudes
    let mut h = GenCfg::base("big");
    h.big = true;
    h.max_resting = 3;
    h.len = (4, 20);
    h.op_w = [20, 40, 10, 10, 5, 5, 5, 0, 5];
    v.push(h);
    // non-monotone timestamps, ties
    let mut k = GenCfg::base("ts-ties");
    k.ts = TsMode::Ties;
    k.op_w = [28, 30, 8, 10, 5, 5, 4, 0, 8];
    v.push(k);
    // user-chosen timestamps 0..=50 in any order (0 included)
    let mut n = GenCfg::base("ts-non-monotone");
    n.ts = TsMode::NonMonotone;
    n.op_w = [28, 32, 8, 10, 5, 5, 4, 0, 0];
    v.push(n);
    v
}

fn has_composition(tr: &Trace) -> bool {
    // fill -> amend -> fill on the same id, or replenish -> cancel/amend
    let mut filled: std::collections::HashSet<u128> = Default::default();
    let mut amended_after_fill: std::collections::HashSet<u128> = Default::default();
    for r in &tr.recs {
        match (&r.op, &r.res) {
            (HOp::Match { .. }, HRes::Matched(m)) => {
                for t in m.transactions.as_vec() {
                    let k = model::key(&t.maker_order_id);
                    if amended_after_fill.contains(&k) {
                        return true;
                    }
                    if r.after.find(k).is_some() {
                        filled.insert(k);
                    }
                }
            }
            (HOp::Update(_), HRes::Updated(Ok(Some(x)))) => {
                let k = model::key(&model::id_of(x));
                if filled.contains(&k) {
                    if r.after.find(k).is_some() {
                        amended_after_fill.insert(k);
                    } else {
                        return true; // partially filled / replenished, then cancelled
                    }
                }
            }
            _ => {}
        }
    }
    false
}

// ---------------------------------------------------------------------------------------------
// C01
// ---------------------------------------------------------------------------------------------

pub fn c01() -> SeqCheck {
    SeqCheck {
        prop: "C01",
        cfgs: modes_general(),
        judge: |tr, part| {
            let fds = mon::agg(tr);
            part.add("states_checked", tr.recs.len() as u64 + 1);
            let reb = tr.recs.iter().filter(|r| matches!(r.op, HOp::Rebuild(_))).count() as u64;
            part.add("rebuilds_then_driven_further", reb);
            (fds, has_composition(tr))
        },
    }
}

// ---------------------------------------------------------------------------------------------
// C02
// ---------------------------------------------------------------------------------------------

pub fn c02() -> SeqCheck {
    let mut cfgs = modes_general();
    // orders whose own price differs from the level's: a transaction still carries the level's
    let mut op = GenCfg::base("off-level-order-prices");
    op.off_price_pct = 50;
    op.op_w = [28, 34, 8, 10, 5, 5, 4, 0, 0];
    cfgs.push(op);
    SeqCheck {
        prop: "C02",
        cfgs,
        judge: |tr, part| {
            let fds = mon::matchacct(tr);
            let mut multi = false;
            for r in &tr.recs {
                if let HRes::Matched(m) = &r.res {
                    let txs = m.transactions.as_vec();
                    part.add("matches", 1);
                    part.add("transactions", txs.len() as u64);
                    // a sweep over several makers, or several rounds of one maker
                    let mut ids: Vec<u128> = txs.iter().map(|t| model::key(&t.maker_order_id)).collect();
                    let n = ids.len();
                    ids.sort();
                    ids.dedup();
                    if n >= 2 {
                        multi = true;
                    }
                    if ids.len() < n {
                        part.add("matches_with_repeated_maker(replenishment rounds)", 1);
                    }
                }
            }
            (fds, multi)
        },
    }
}

// ---------------------------------------------------------------------------------------------
// C06
// ---------------------------------------------------------------------------------------------

pub fn modes_zero() -> Vec<GenCfg> {
    let mut v = Vec::new();
    let mut a = GenCfg::base("zero-display-layered");
    a.kind_w = [1, 5, 1, 0, 0, 0, 5];
    a.zero_pct = 35;
    a.op_w = [22, 40, 4, 25, 3, 3, 1, 0, 2];
    v.push(a);
    let mut b = GenCfg::base("amend-to-zero");
    b.kind_w = [2, 6, 2, 1, 1, 1, 3];
    b.zero_pct = 10;
    b.op_w = [20, 35, 3, 35, 3, 3, 1, 0, 0];
    v.push(b);
    let mut c = GenCfg::base("only-undisplayed");
    c.kind_w = [0, 5, 0, 0, 0, 0, 5];
    c.zero_pct = 80;
    c.op_w = [30, 50, 2, 10, 2, 2, 1, 0, 3];
    v.push(c);
    // many orders with nothing displayed but something hidden resting at the same time
    let mut c2 = GenCfg::base("many-undisplayed-with-hidden");
    c2.kind_w = [1, 6, 0, 0, 0, 0, 4];
    c2.zero_pct = 75;
    c2.hid_zero_pct = Some(8);
    c2.max_resting = 12;
    c2.preload = (4, 9);
    c2.len = (6, 40);
    c2.op_w = [34, 44, 2, 14, 2, 2, 1, 0, 1];
    v.push(c2);
    let mut d = GenCfg::base("mixed");
    d.zero_pct = 15;
    v.push(d);
    // long runs of cancelled ids in front of live orders, then small matches
    let mut e = GenCfg::base("cancel-burst-then-match");
    e.len = (120, 320);
    e.max_resting = 5;
    e.absent_pct = 3;
    e.zero_pct = 5;
    e.op_w = [44, 5, 42, 3, 0, 0, 6, 0, 0];
    v.push(e);
    v
}

pub fn c06() -> SeqCheck {
    SeqCheck {
        prop: "C06",
        cfgs: modes_zero(),
        judge: |tr, part| {
            let fds = mon::progress(tr);
            let mut nontrivial = false;
            for r in &tr.recs {
                if let HOp::Match { .. } = r.op {
                    part.add("matches", 1);
                    if mon::rec_has_zero_display(r) {
                        part.add("matches_against_level_with_undisplayed_order", 1);
                        nontrivial = true;
                    }
                    let cur = part.extra.get("max_steps_of_one_match").and_then(|v| v.as_u64()).unwrap_or(0);
                    if r.steps > cur {
                        part.set("max_steps_of_one_match", json!(r.steps));
                    }
                }
            }
            (fds, nontrivial)
        },
    }
}

// ---------------------------------------------------------------------------------------------
// C05 (through the level)
// ---------------------------------------------------------------------------------------------

pub fn c05_level() -> SeqCheck {
    SeqCheck {
        prop: "C05",
        cfgs: modes_general(),
        judge: |tr, part| {
            let fds = mon::rules(tr);
            let mut any = false;
            for r in &tr.recs {
                if let HRes::Matched(m) = &r.res {
                    part.add("transactions_replayed_through_rules", m.transactions.len() as u64);
                    any |= !m.transactions.is_empty();
                }
            }
            (fds, any)
        },
    }
}

// ---------------------------------------------------------------------------------------------
// C15 (sequential half)
// ---------------------------------------------------------------------------------------------

pub fn modes_stats() -> Vec<GenCfg> {
    let mut v = modes_general();
    for c in v.iter_mut() {
        c.op_w[8] = 0; // no rebuilds: judged on levels made by PriceLevel::new
        c.zero_pct = 0; // positive order quantities
    }
    v
}

pub fn c15_seq() -> SeqCheck {
    SeqCheck {
        prop: "C15",
        cfgs: modes_stats(),
        judge: |tr, part| {
            let fds = mon::stats(tr);
            let mut ex = false;
            let mut rm = false;
            for r in &tr.recs {
                if let HRes::Matched(m) = &r.res {
                    ex |= !m.transactions.is_empty();
                }
                if let HRes::Updated(Ok(Some(_))) = &r.res {
                    rm = true;
                }
            }
            part.add("stat_comparisons", 4 * tr.recs.len() as u64);
            (fds, ex && rm)
        },
    }
}

// ---------------------------------------------------------------------------------------------
// C04
// ---------------------------------------------------------------------------------------------

pub fn modes_priority() -> Vec<GenCfg> {
    let mut v = Vec::new();
    // clean: exact fills only, ids never re-used -> the catalogued mechanisms cannot occur
    let mut a = GenCfg::base("clean-exact-fills");
    a.exact_fills = true;
    a.reuse_ids = false;
    a.zero_pct = 0;
    a.op_w = [35, 35, 10, 0, 0, 0, 3, 0, 0];
    a.final_drain = true;
    v.push(a);
    let mut b = GenCfg::base("partial-fill-heavy");
    b.op_w = [30, 50, 5, 5, 2, 2, 2, 0, 0];
    b.final_drain = true;
    v.push(b);
    let mut c = GenCfg::base("amend-heavy");
    c.op_w = [25, 35, 5, 25, 4, 4, 2, 0, 0];
    c.kind_w = [4, 4, 3, 1, 1, 1, 2];
    c.final_drain = true;
    v.push(c);
    let mut d = GenCfg::base("readd-heavy");
    d.op_w = [35, 30, 20, 5, 2, 2, 4, 0, 0];
    d.reuse_ids = true;
    d.max_resting = 4;
    d.final_drain = true;
    v.push(d);
    let mut e = GenCfg::base("layered-replenish");
    e.kind_w = [2, 5, 0, 0, 0, 0, 5];
    e.op_w = [30, 45, 5, 10, 2, 2, 2, 0, 0];
    e.qmax = 8;
    e.final_drain = true;
    v.push(e);
    // long add / cancel churn: many stale tickets pile up between matches
    let mut h = GenCfg::base("cancel-churn-long");
    h.len = (120, 320);
    h.max_resting = 6;
    h.ts = TsMode::NonMonotone;
    h.op_w = [40, 9, 36, 5, 1, 1, 5, 0, 0];
    h.final_drain = true;
    v.push(h);
    // bursts of cancels with (almost) no match in between: nothing drains the stale tickets
    let mut hb = GenCfg::base("cancel-burst");
    hb.len = (160, 400);
    hb.max_resting = 5;
    hb.ts = TsMode::NonMonotone;
    hb.absent_pct = 3;
    hb.op_w = [46, 1, 44, 2, 0, 0, 6, 0, 0];
    hb.final_drain = true;
    v.push(hb);
    let mut h2 = GenCfg::base("clean-churn-long");
    h2.len = (120, 320);
    h2.max_resting = 6;
    h2.exact_fills = true;
    h2.reuse_ids = false;
    h2.zero_pct = 0;
    h2.ts = TsMode::NonMonotone;
    h2.op_w = [40, 9, 38, 0, 0, 0, 5, 0, 0];
    h2.final_drain = true;
    v.push(h2);
    // orders with nothing displayed are visited, set aside, and later amended back up
    let mut z = GenCfg::base("undisplayed-then-amended-up");
    z.kind_w = [2, 7, 1, 0, 0, 0, 2];
    z.zero_pct = 35;
    z.hid_zero_pct = Some(10);
    z.max_resting = 6;
    z.len = (10, 50);
    z.op_w = [24, 36, 3, 30, 3, 3, 1, 0, 0];
    z.final_drain = true;
    v.push(z);
    let mut g = GenCfg::base("clean-exact-layered");
    g.exact_fills = true;
    g.reuse_ids = false;
    g.zero_pct = 0;
    g.kind_w = [3, 4, 1, 1, 1, 1, 3];
    g.op_w = [35, 40, 8, 0, 0, 0, 2, 0, 0];
    g.final_drain = true;
    v.push(g);
    v
}

pub fn c04() -> SeqCheck {
    SeqCheck {
        prop: "C04",
        cfgs: modes_priority(),
        judge: |tr, part| {
            let p = mon::priority(tr);
            part.add("transactions_judged", p.tx_judged);
            part.add("pairs_compared", p.pairs);
            part.add("inversions_seen", p.inversions);
            if p.spec_alone {
                part.add("histories_decided_by_stamp_relation_alone", 1);
            } else {
                part.add("histories_that_needed_the_ticket_model", 1);
            }
            part.add("ticket_model_disagreements", p.model_mismatches);
            for (k, n) in &p.known {
                part.known(k, *n);
            }
            (p.violations, p.tx_judged >= 2)
        },
    }
}

// ---------------------------------------------------------------------------------------------
// entry points
// ---------------------------------------------------------------------------------------------

pub fn budget(tier: Tier, quick: u64, thorough: u64) -> u64 {
    let scale: f64 = std::env::var("PLV_SCALE").ok().and_then(|s| s.parse().ok()).unwrap_or(1.0);
    (tier.pick(quick, thorough) as f64 * scale) as u64
}

pub const RULE_HSEQ: &str = "seeded random single-threaded histories (mode-mixed: op mix, order types, zero quantities, id re-use, timestamps, boundary magnitudes) generated online against the real level; orthogonal scale tiers chosen per case (1/16 of the cases start from 31-200 resting orders, 1/256 from 260-1100, 1/256 run 1500-9000 operations, 1/8 use mid-magnitude quantities 10^2..10^9 with hidden parts within a percent of the display, 1/8 timestamps straddling 2^41 / 2^48 / 2^53 / 2^63, 1/16 of the short ones a level price beyond 2^53, 1/40 of the matches ask for 2^32..2^64-1) plus sparse-observation bulk scenarios (31-70 000 one-fill orders added and cancelled blind, up to 131 072 mutations between two listings, restore, both twins drained; exact oracle); distinct = distinct operation sequences (hash of the rendered history); ";

pub const ASSUME_SEQ: [&str; 4] = [
    "ids unique among the orders resting at the same time",
    "orders carry the level's price",
    "sums of quantity and of price*quantity over one history fit in 64 bits",
    "a legitimate match needs < 10^4 replenishment rounds (step budget 2*10^6 per call)",
];

pub fn std_assumptions(rep: &mut Report) {
    for a in ASSUME_SEQ {
        rep.assumptions.push(a.to_string());
    }
    rep.assumptions
        .push("through the level, an iceberg tranche is min(exhausted display, hidden) (the documented size; the direct C05 grid accepts any size in 1..=that)".into());
}

// ---------------------------------------------------------------------------------------------
// C02, last sentence: a match result built incrementally keeps remaining = initial - sum
// ---------------------------------------------------------------------------------------------

pub fn match_result_incremental(rep: &mut Report, n: u64) {
    use pricelevel::{MatchResult, Side, Transaction};
    let seed = rep.seed;
    let tier = rep.tier;
    let nw = ncpu();
    parallel(nw, rep, |w| {
        let mut part = Report::new("C02", tier, seed, "exploration");
        let mut i = w as u64;
        let mut appended = 0u64;
        while i < n {
            let mut rng = Rng::derive(seed ^ 0x02add, i);
            let initial: u64 = match rng.below(5) {
                0 => 0,
                1 => rng.below(50),
                2 => rng.below(100_000),
                3 => u64::MAX - rng.below(3),
                _ => rng.next_u64() >> rng.below(60),
            };
            let id = model::oid(1 + rng.below(1000));
            let mut m = MatchResult::new(id, initial);
            let mut want_rem = initial;
            let mut sum: u128 = 0;
            let mut log = vec![format!("new(initial={})", initial)];
            let mut bad: Option<String> = None;
            if m.remaining_quantity != initial || m.is_complete || !m.transactions.is_empty() || m.order_id != id {
                bad = Some(format!("fresh result: remaining={} complete={} txs={}", m.remaining_quantity, m.is_complete, m.transactions.len()));
            }
            let k = rng.below(8);
            for j in 0..k {
                let q: u64 = match rng.below(6) {
                    0 => 0,
                    1 => want_rem, // exactly what is left
                    2 => want_rem / 2,
                    3 => want_rem.saturating_add(rng.below(3)), // over-fill: remaining saturates at 0
                    4 => rng.below(20),
                    _ => rng.next_u64() >> rng.below(64),
                };
                let t = Transaction {
                    transaction_id: uuid::Uuid::from_u128(i as u128 * 16 + j as u128),
                    taker_order_id: id,
                    maker_order_id: model::oid(2000 + j),
                    price: 1 + rng.below(1000),
                    quantity: q,
                    taker_side: if rng.chance(1, 2) { Side::Buy } else { Side::Sell },
                    timestamp: j,
                };
                let r = crate::hook::quiet_catch(|| {
                    let mut m2 = m.clone();
                    m2.add_transaction(t);
                    m2
                });
                appended += 1;
                log.push(format!("add_transaction(quantity={})", q));
                match r {
                    Err(p) => {
                        bad = Some(format!("add_transaction panicked: {}", crate::sched::panic_message(&*p)));
                        break;
                    }
                    Ok(m2) => m = m2,
                }
                sum += q as u128;
                want_rem = want_rem.saturating_sub(q);
                if m.remaining_quantity != want_rem {
                    bad = Some(format!("remaining {} != initial {} - sum {} (expected {})", m.remaining_quantity, initial, sum, want_rem));
                    break;
                }
                if m.is_complete != (want_rem == 0) {
                    bad = Some(format!("is_complete={} with remaining {}", m.is_complete, m.remaining_quantity));
                    break;
                }
                if m.transactions.len() != (j + 1) as usize || m.transactions.as_vec().last() != Some(&t) {
                    bad = Some("the appended transaction is not the last of the list".into());
                    break;
                }
                if sum <= u64::MAX as u128 {
                    match crate::hook::quiet_catch(|| m.executed_quantity()) {
                        Ok(e) if e as u128 == sum => {}
                        Ok(e) => {
                            bad = Some(format!("executed_quantity {} != sum of transactions {}", e, sum));
                            break;
                        }
                        Err(_) => {
                            bad = Some("executed_quantity panicked although the sum fits in 64 bits".into());
                            break;
                        }
                    }
                }
            }
            part.evaluations += 1;
            if k >= 2 {
                part.distinct.insert(crate::rng::fnv(log.join(";").as_bytes()));
            }
            if i < 2 {
                part.sample(json!({"incremental_match_result": log}));
            }
            if let Some(b) = bad {
                part.violation(
                    format!("[incremental match result {}] {}", i, b),
                    json!({"engine": "match-result-incremental", "property": "C02", "case": i, "seed": seed, "calls": log, "finding": b}),
                );
            }
            i += nw as u64;
        }
        part.add("match_result_transactions_appended", appended);
        part
    });
}
