//! C16 / C17 (round-trips), C18 (parser totality under mutation), C09 (tampered packages).

use crate::checks_seq::budget;
use crate::codec::{self, ParseFn, RtStats};
use crate::hseq;
use crate::model;
use crate::obs::observe;
use crate::report::{ncpu, parallel, Report, Tier};
use crate::rng::{fnv, Rng};
use pricelevel::verif::PriceLevelSnapshotPackage;
use pricelevel::PriceLevel;
use serde_json::{json, Value};
use std::collections::BTreeMap;
use std::sync::atomic::{AtomicBool, AtomicU64, Ordering};
use std::sync::{Arc, Mutex};
use std::time::{Duration, Instant};

// ---------------------------------------------------------------------------------------------
// C16 / C17
// ---------------------------------------------------------------------------------------------

fn roundtrip_check(prop: &'static str, tier: Tier, seed: u64, json: bool) -> i32 {
    let mut rep = Report::new(prop, tier, seed, "exploration");
    let n_random = budget(tier, 50_000, 10_000_000) as usize;
    let nw = ncpu();
    let stats: Mutex<Vec<RtStats>> = Mutex::new(Vec::new());
    parallel(nw, &mut rep, |w| {
        let part = Report::new(prop, tier, seed, "exploration");
        let mut st = RtStats::default();
        let mut rng = Rng::derive(seed ^ if json { 0xc17 } else { 0xc16 }, w as u64);
        let per = n_random / nw;
        // the boundary grids are enumerated once (worker 0); random values everywhere
        if json {
            codec::json_batch(&mut rng, w == 0, per, &mut st);
        } else {
            codec::text_batch(&mut rng, w == 0, per, &mut st);
        }
        stats.lock().unwrap().push(st);
        part
    });
    let mut per_type: BTreeMap<String, u64> = BTreeMap::new();
    for st in stats.into_inner().unwrap() {
        rep.evaluations += st.total;
        rep.distinct.extend(st.distinct);
        rep.maxset("max_orders_in_one_level_or_queue_round_trip", st.widest as u64);
        for (k, v) in st.per_type {
            *per_type.entry(k).or_default() += v;
        }
        for s in st.samples {
            if rep.samples.len() < 6 {
                rep.samples.push(json!(s));
            }
        }
        for (name, what) in st.failures {
            rep.violation(
                format!("{}: {}", name, what),
                json!({"engine": "codec-roundtrip", "property": prop, "type": name, "finding": what}),
            );
        }
    }
    rep.set("round_trips_per_type", json!(per_type));
    rep.set("exhaustive", json!(true));
    rep.set(
        "exhaustive_scope",
        json!("the boundary grids (every order type x every time-in-force incl. GTD at the 64-bit edge values x both sides; every numeric field swept over {0,1,255,256,2^16-1,2^16,2^31-1,2^31,2^32-1,2^32,2^53-1,2^53,2^53+1,2^63,2^63+1,10^19-1,10^19,2^64-2,2^64-1}; i64 offsets at MIN/MIN+1/-1/0/1/MAX-1/MAX; nil / max / random UUID and ULID ids; every update kind x edge values; empty lists) are enumerated completely; the rest is seeded random sampling"),
    );
    rep.rule = format!(
        "value -> {} -> value for every codec type; equality on the full value (Debug form of every field; levels / queues by content; snapshot text form by price + aggregates); non-trivial = every value (each has at least one field); distinct = distinct encodings (hash of the encoded text)",
        if json { "serde_json::to_string -> from_str" } else { "to_string -> from_str" }
    );
    rep.assumptions.push("levels and queues are compared by content (price, orders field for field as a multiset, aggregates)".into());
    rep.finish()
}

pub fn c16(tier: Tier, seed: u64) -> i32 {
    roundtrip_check("C16", tier, seed, false)
}

pub fn c17(tier: Tier, seed: u64) -> i32 {
    roundtrip_check("C17", tier, seed, true)
}

// ---------------------------------------------------------------------------------------------
// mutation engine
// ---------------------------------------------------------------------------------------------

pub fn alphabet() -> Vec<char> {
    let mut v: Vec<char> = (0x20u8..=0x7e).map(|b| b as char).collect();
    v.extend(['é', '€', '😀', '\0', '\n', '\t', '\r', 'ß', 'İ', '\u{feff}', '\u{7f}', '\u{80}', '١', '𝟗', '\u{2028}']);
    v
}

/// All single character-level faults of `s`: deletion, substitution and insertion of every
/// alphabet symbol at every character offset, and truncation at every character boundary.
pub fn single_faults(s: &str, alpha: &[char], f: &mut dyn FnMut(&str, u8)) {
    let idx: Vec<(usize, char)> = s.char_indices().collect();
    let mut buf = String::with_capacity(s.len() + 8);
    for (n, (i, c)) in idx.iter().enumerate() {
        let next = idx.get(n + 1).map(|x| x.0).unwrap_or(s.len());
        // deletion
        buf.clear();
        buf.push_str(&s[..*i]);
        buf.push_str(&s[next..]);
        f(&buf, 0);
        // truncation
        f(&s[..*i], 3);
        for a in alpha {
            if a != c {
                buf.clear();
                buf.push_str(&s[..*i]);
                buf.push(*a);
                buf.push_str(&s[next..]);
                f(&buf, 1);
            }
            buf.clear();
            buf.push_str(&s[..*i]);
            buf.push(*a);
            buf.push_str(&s[*i..]);
            f(&buf, 2);
        }
    }
    for a in alpha {
        buf.clear();
        buf.push_str(s);
        buf.push(*a);
        f(&buf, 2);
    }
}

/// segment-level faults: duplicate / drop / swap pieces separated by `sep`; blow up numbers
pub fn segment_faults(s: &str, f: &mut dyn FnMut(&str)) {
    for sep in [';', ',', ':', '='] {
        let parts: Vec<&str> = s.split(sep).collect();
        if parts.len() < 2 || parts.len() > 60 {
            continue;
        }
        let sp = sep.to_string();
        for i in 0..parts.len() {
            let mut v = parts.clone();
            v.insert(i, parts[i]);
            f(&v.join(&sp));
            let mut v = parts.clone();
            v.remove(i);
            f(&v.join(&sp));
            if i + 1 < parts.len() {
                let mut v = parts.clone();
                v.swap(i, i + 1);
                f(&v.join(&sp));
            }
        }
    }
    // every digit run replaced by a 40-digit number, by nothing, by a negative number
    let b = s.as_bytes();
    let mut i = 0;
    while i < b.len() {
        if b[i].is_ascii_digit() {
            let mut k = i;
            while k < b.len() && b[k].is_ascii_digit() {
                k += 1;
            }
            // (too long, empty, negative, one past u64, float / hex / padded forms, and *valid*
            // huge values: sizes and counts taken from the text must not be trusted)
            for rep in [
                "9999999999999999999999999999999999999999",
                "",
                "-1",
                "18446744073709551616",
                "1e5",
                "0x10",
                " 1",
                "18446744073709551615",
                "9223372036854775808",
                "1152921504606846976",
                "4294967296",
                "1000000000",
            ] {
                let m = format!("{}{}{}", &s[..i], rep, &s[k..]);
                f(&m);
            }
            i = k;
        } else {
            i += 1;
        }
    }
}

/// Overlong field values: every digit run (and every value after `=` / `:`) replaced by a long
/// run with one multi-byte character at offset k, for every k in 0..=200 around the usual buffer
/// and clipping sizes; plus plain long runs of 63 / 64 / 65 / 127 / 128 / 129 / 255 / 256 / 257 /
/// 4096 digits.  Error paths that clip, echo or index the offending value live here.
pub fn overlong_faults(s: &str, f: &mut dyn FnMut(&str)) {
    let b = s.as_bytes();
    // first three digit runs are enough: the error path is per field kind, not per position
    let mut runs: Vec<(usize, usize)> = Vec::new();
    let mut i = 0;
    while i < b.len() && runs.len() < 3 {
        if b[i].is_ascii_digit() {
            let mut k = i;
            while k < b.len() && b[k].is_ascii_digit() {
                k += 1;
            }
            runs.push((i, k));
            i = k;
        } else {
            i += 1;
        }
    }
    let mut buf = String::new();
    for (i, k) in runs {
        for n in [63usize, 64, 65, 127, 128, 129, 255, 256, 257, 4096] {
            buf.clear();
            buf.push_str(&s[..i]);
            for _ in 0..n {
                buf.push('7');
            }
            buf.push_str(&s[k..]);
            f(&buf);
        }
        for wide in ['é', '€', '😀'] {
            for at in 0..=200usize {
                buf.clear();
                buf.push_str(&s[..i]);
                for _ in 0..at {
                    buf.push('7');
                }
                buf.push(wide);
                for _ in 0..(8 + at % 3) {
                    buf.push('7');
                }
                buf.push_str(&s[k..]);
                f(&buf);
            }
        }
    }
}

/// A seeded sample of the single character-level faults (for encodings too long for the complete
/// enumeration, which is quadratic in the length).
pub fn sampled_single_faults(s: &str, alpha: &[char], rng: &mut Rng, n: usize, f: &mut dyn FnMut(&str, u8)) {
    let idx: Vec<usize> = s.char_indices().map(|x| x.0).chain(std::iter::once(s.len())).collect();
    let mut buf = String::with_capacity(s.len() + 8);
    for _ in 0..n {
        let p = rng.usize_below(idx.len() - 1);
        let (i, next) = (idx[p], idx[p + 1]);
        let a = *rng.pick(alpha);
        buf.clear();
        match rng.below(4) {
            0 => {
                buf.push_str(&s[..i]);
                buf.push_str(&s[next..]);
                f(&buf, 0);
            }
            1 => {
                buf.push_str(&s[..i]);
                buf.push(a);
                buf.push_str(&s[next..]);
                f(&buf, 1);
            }
            2 => {
                buf.push_str(&s[..i]);
                buf.push(a);
                buf.push_str(&s[i..]);
                f(&buf, 2);
            }
            _ => f(&s[..i], 3),
        }
    }
}

/// Two faults at once: every truncation point combined with a structural character inserted at
/// a few random offsets; for JSON, a dropped object member combined with a number made huge; and a
/// seeded sample of arbitrary pairs of single character-level faults.
pub fn pair_faults(s: &str, rng: &mut Rng, f: &mut dyn FnMut(&str)) {
    const STRUCT: [char; 12] = ['[', ']', '{', '}', '(', ')', ':', ';', '=', ',', '"', 'é'];
    let bounds: Vec<usize> = s.char_indices().map(|x| x.0).chain(std::iter::once(s.len())).collect();
    // truncation x structural insertion
    for &t in &bounds {
        let prefix = &s[..t];
        let pb: Vec<usize> = prefix.char_indices().map(|x| x.0).chain(std::iter::once(prefix.len())).collect();
        for c in STRUCT {
            for _ in 0..3 {
                let at = pb[rng.usize_below(pb.len())];
                let m = format!("{}{}{}", &prefix[..at], c, &prefix[at..]);
                f(&m);
            }
        }
    }
    // deletion of one structural character x insertion of another one somewhere else
    let structural: Vec<(usize, char)> = s.char_indices().filter(|(_, c)| STRUCT.contains(c)).collect();
    for (i, c) in &structural {
        let without = format!("{}{}", &s[..*i], &s[*i + c.len_utf8()..]);
        let wb: Vec<usize> = without.char_indices().map(|x| x.0).chain(std::iter::once(without.len())).collect();
        for c2 in STRUCT {
            let at = wb[rng.usize_below(wb.len())];
            let m = format!("{}{}{}", &without[..at], c2, &without[at..]);
            f(&m);
        }
    }
    // JSON: dropped member x huge number
    if let Ok(v) = serde_json::from_str::<Value>(s) {
        let mut paths: Vec<Vec<String>> = Vec::new();
        collect_paths(&v, &mut Vec::new(), &mut paths);
        let members: Vec<Vec<String>> = paths.iter().filter(|p| p.last().map(|x| x.parse::<usize>().is_err()).unwrap_or(false)).cloned().collect();
        let numbers: Vec<Vec<String>> = paths.iter().filter(|p| get_path(&v, p).map(|x| x.is_number()).unwrap_or(false)).cloned().collect();
        for drop in members.iter().take(40) {
            for num in numbers.iter().take(40) {
                if num.starts_with(drop) {
                    continue;
                }
                for huge in [u64::MAX, u64::MAX / 2, 1u64 << 62] {
                    let mut m = v.clone();
                    set_path(&mut m, num, json!(huge));
                    remove_path(&mut m, drop);
                    f(&m.to_string());
                }
            }
        }
    }
    // arbitrary pairs of single faults
    let alpha = alphabet();
    for _ in 0..(40 * bounds.len()).min(20_000) {
        let mut m: Vec<char> = s.chars().collect();
        for _ in 0..2 {
            if m.is_empty() {
                break;
            }
            let pos = rng.usize_below(m.len());
            match rng.below(3) {
                0 => {
                    m.remove(pos);
                }
                1 => m[pos] = *rng.pick(&alpha),
                _ => m.insert(pos, *rng.pick(&alpha)),
            }
        }
        let t: String = m.into_iter().collect();
        f(&t);
    }
}

fn collect_paths(v: &Value, cur: &mut Vec<String>, out: &mut Vec<Vec<String>>) {
    match v {
        Value::Object(o) => {
            for (k, x) in o {
                cur.push(k.clone());
                out.push(cur.clone());
                collect_paths(x, cur, out);
                cur.pop();
            }
        }
        Value::Array(a) => {
            for (i, x) in a.iter().enumerate() {
                cur.push(i.to_string());
                out.push(cur.clone());
                collect_paths(x, cur, out);
                cur.pop();
            }
        }
        _ => {}
    }
}

fn get_path<'a>(v: &'a Value, path: &[String]) -> Option<&'a Value> {
    let mut cur = v;
    for p in path {
        cur = match cur {
            Value::Array(a) => a.get(p.parse::<usize>().ok()?)?,
            Value::Object(o) => o.get(p)?,
            _ => return None,
        };
    }
    Some(cur)
}

fn remove_path(v: &mut Value, path: &[String]) {
    if path.is_empty() {
        return;
    }
    let mut cur = v;
    for p in &path[..path.len() - 1] {
        cur = match cur {
            Value::Array(a) => match p.parse::<usize>().ok().and_then(|i| a.get_mut(i)) {
                Some(x) => x,
                None => return,
            },
            Value::Object(o) => match o.get_mut(p) {
                Some(x) => x,
                None => return,
            },
            _ => return,
        };
    }
    if let Value::Object(o) = cur {
        o.remove(&path[path.len() - 1]);
    }
}

// hang watchdog -------------------------------------------------------------------------------

struct Slot {
    started_ms: AtomicU64,
    cur: Mutex<(String, String)>,
}

struct Watch {
    slots: Vec<Slot>,
    t0: Instant,
    done: AtomicBool,
    hang: Mutex<Option<(String, String)>>,
    slow: Mutex<Vec<String>>,
}

impl Watch {
    fn new(n: usize) -> Arc<Self> {
        Arc::new(Watch {
            slots: (0..n)
                .map(|_| Slot {
                    started_ms: AtomicU64::new(0),
                    cur: Mutex::new((String::new(), String::new())),
                })
                .collect(),
            t0: Instant::now(),
            done: AtomicBool::new(false),
            hang: Mutex::new(None),
            slow: Mutex::new(Vec::new()),
        })
    }
    fn begin(&self, w: usize, entry: &str, input: &str) {
        {
            let mut c = self.slots[w].cur.lock().unwrap();
            c.0.clear();
            c.0.push_str(entry);
            c.1.clear();
            c.1.push_str(input);
        }
        self.slots[w]
            .started_ms
            .store(self.t0.elapsed().as_millis() as u64 + 1, Ordering::Release);
    }
    fn end(&self, w: usize) {
        self.slots[w].started_ms.store(0, Ordering::Release);
    }
}

/// Re-runs one parse alone in a subprocess with a 60 s cap.  true = it hung there too.
fn hangs_in_subprocess(entry: &str, input: &str) -> Option<bool> {
    use std::io::Write;
    use std::process::{Command, Stdio};
    let exe = std::env::current_exe().ok()?;
    let mut child = Command::new(exe)
        .arg("parse-one")
        .arg(entry)
        .stdin(Stdio::piped())
        .stdout(Stdio::null())
        .stderr(Stdio::null())
        .spawn()
        .ok()?;
    child.stdin.take()?.write_all(input.as_bytes()).ok()?;
    let t0 = Instant::now();
    loop {
        match child.try_wait() {
            Ok(Some(_)) => return Some(false),
            Ok(None) => {
                if t0.elapsed() > Duration::from_secs(60) {
                    let _ = child.kill();
                    return Some(true);
                }
                std::thread::sleep(Duration::from_millis(100));
            }
            Err(_) => return None,
        }
    }
}

fn watchdog(w: Arc<Watch>) {
    while !w.done.load(Ordering::Acquire) {
        std::thread::sleep(Duration::from_millis(500));
        let now = w.t0.elapsed().as_millis() as u64 + 1;
        for s in &w.slots {
            let st = s.started_ms.load(Ordering::Acquire);
            if st != 0 && now.saturating_sub(st) > 10_000 {
                let (entry, input) = s.cur.lock().unwrap().clone();
                // still the same parse?
                if s.started_ms.load(Ordering::Acquire) != st {
                    continue;
                }
                match hangs_in_subprocess(&entry, &input) {
                    Some(true) => {
                        *w.hang.lock().unwrap() = Some((entry, input));
                        return;
                    }
                    _ => {
                        w.slow.lock().unwrap().push(format!("{} took > 10 s in-process but finished alone: {:?}", entry, &input[..input.len().min(80)]));
                    }
                }
            }
        }
    }
}

pub fn parse_one(entry: &str) -> i32 {
    use std::io::Read;
    let mut input = String::new();
    if std::io::stdin().read_to_string(&mut input).is_err() {
        return 3;
    }
    let all: Vec<(&'static str, ParseFn)> = codec::text_entries().into_iter().chain(codec::json_entries()).collect();
    for (name, f) in all {
        if name == entry {
            let r = crate::hook::quiet_catch(|| f(&input));
            println!("{}", match r { Ok(true) => "ok", Ok(false) => "err", Err(_) => "panic" });
            return 0;
        }
    }
    3
}

// ---------------------------------------------------------------------------------------------
// C18
// ---------------------------------------------------------------------------------------------

pub fn c18(tier: Tier, seed: u64) -> i32 {
    let mut rep = Report::new("C18", tier, seed, "exploration");
    let nw = ncpu();
    let per_type = budget(tier, 4, 100) as usize;
    let alpha = alphabet();
    let text_entries = codec::text_entries();
    let json_entries = codec::json_entries();
    let mut rng0 = Rng::derive(seed ^ 0xc18, 0);
    let mut seeds: Vec<(&'static str, String)> = codec::seeds_text(&mut rng0, per_type);
    seeds.extend(codec::seeds_json(&mut rng0, per_type));
    let dict = codec::dictionary();
    let watch = Watch::new(nw);
    let wd = {
        let w = watch.clone();
        std::thread::spawn(move || watchdog(w))
    };
    let lookup = |name: &str| -> ParseFn {
        text_entries
            .iter()
            .chain(json_entries.iter())
            .find(|(n, _)| *n == name)
            .map(|(_, f)| *f)
            .expect("entry")
    };
    let panics: Mutex<Vec<(String, String, String)>> = Mutex::new(Vec::new());
    parallel(nw, &mut rep, |w| {
        let mut part = Report::new("C18", tier, seed, "exploration");
        let mut per_entry: BTreeMap<String, u64> = BTreeMap::new();
        let mut accepted: u64 = 0;
        let mut run = |entry: &'static str, f: ParseFn, input: &str, part: &mut Report, per_entry: &mut BTreeMap<String, u64>| {
            watch.begin(w, entry, input);
            crate::hook::crumb(entry, input);
            let r = crate::hook::quiet_catch(|| f(input));
            watch.end(w);
            part.evaluations += 1;
            *per_entry.entry(entry.to_string()).or_default() += 1;
            match r {
                Ok(true) => accepted += 1,
                Ok(false) => {}
                Err(p) => {
                    let msg = crate::sched::panic_message(&*p);
                    let mut ps = panics.lock().unwrap();
                    if ps.len() < 200 {
                        ps.push((entry.to_string(), input.to_string(), msg));
                    }
                }
            }
        };
        // hostile dictionary: every string to every entry point (worker 0)
        if w == 0 {
            for d in &dict {
                for (name, f) in text_entries.iter().chain(json_entries.iter()) {
                    run(name, *f, d, &mut part, &mut per_entry);
                }
                part.distinct.insert(fnv(d.as_bytes()));
            }
            // every valid encoding to every *other* entry point as well
            for (_, enc) in &seeds {
                for (name, f) in text_entries.iter().chain(json_entries.iter()) {
                    run(name, *f, enc, &mut part, &mut per_entry);
                }
            }
        }
        for (si, (entry, enc)) in seeds.iter().enumerate() {
            if si % nw != w {
                continue;
            }
            let f = lookup(entry);
            let mut n_mut = 0u64;
            overlong_faults(enc, &mut |m| {
                run(entry, f, m, &mut part, &mut per_entry);
                n_mut += 1;
            });
            if enc.len() > 3_000 {
                // long list values (tens to a thousand elements): the complete enumeration is
                // quadratic in the length, so these get a seeded sample
                part.add("long_encodings_with_sampled_faults", 1);
                part.maxset("max_encoding_length_mutated", enc.len() as u64);
                let mut r = Rng::derive(seed ^ 0x18ab, si as u64);
                sampled_single_faults(enc, &alpha, &mut r, 1_500, &mut |m, _| {
                    run(entry, f, m, &mut part, &mut per_entry);
                    n_mut += 1;
                });
                part.distinct.insert(fnv(enc.as_bytes()));
                part.add("mutants", n_mut);
                continue;
            }
            part.maxset("max_encoding_length_mutated", enc.len() as u64);
            single_faults(enc, &alpha, &mut |m, _| {
                run(entry, f, m, &mut part, &mut per_entry);
                n_mut += 1;
            });
            segment_faults(enc, &mut |m| {
                run(entry, f, m, &mut part, &mut per_entry);
                n_mut += 1;
            });
            pair_faults(enc, &mut Rng::derive(seed ^ 0x18aa, si as u64), &mut |m| {
                run(entry, f, m, &mut part, &mut per_entry);
                n_mut += 1;
            });
            // a text seed is also thrown at the JSON side and vice versa (cheap, catches dispatch slips)
            part.distinct.insert(fnv(enc.as_bytes()));
            part.add("mutants", n_mut);
            if part.samples.len() < 2 {
                part.sample(json!({"entry": entry, "valid_encoding": enc, "single_and_segment_faults_derived": n_mut}));
            }
            if watch.hang.lock().unwrap().is_some() {
                break;
            }
        }
        part.add("accepted_inputs", accepted);
        part.set("inputs_per_entry_point", json!(per_entry));
        part
    });
    watch.done.store(true, Ordering::Release);
    let _ = wd.join();
    if let Some((entry, input)) = watch.hang.lock().unwrap().clone() {
        rep.violation(
            format!("{} did not return within 60 s (alone, in a subprocess) on {:?}", entry, &input[..input.len().min(120)]),
            json!({"engine": "codec-mutation", "property": "C18", "entry": entry, "input": input, "finding": "hang"}),
        );
    }
    for s in watch.slow.lock().unwrap().iter() {
        rep.inconclusive(s.clone());
    }
    let ps = panics.into_inner().unwrap();
    let mut seen_msgs: BTreeMap<String, u64> = BTreeMap::new();
    for (entry, input, msg) in &ps {
        let key = format!("{}|{}", entry, msg.split(" at ").next().unwrap_or(msg));
        let n = seen_msgs.entry(key).or_default();
        *n += 1;
        if *n <= 2 {
            rep.violation(
                format!("{} panicked on {:?}: {}", entry, &input[..input.char_indices().nth(100).map(|x| x.0).unwrap_or(input.len())], msg),
                json!({"engine": "codec-mutation", "property": "C18", "entry": entry, "input": input, "panic": msg}),
            );
        } else {
            rep.total_violations += 1;
        }
    }
    if tier == Tier::Thorough && std::env::var("PLV_NO_MIRI").is_err() {
        miri_codec(&mut rep);
    }
    if tier == Tier::Thorough && std::env::var("PLV_NO_FUZZ").is_err() {
        crate::fuzz::run(&mut rep, budget(tier, 0, 300), ncpu().min(16));
    }
    rep.set("valid_encodings_mutated", json!(seeds.len()));
    rep.set("dictionary_strings", json!(dict.len()));
    rep.set("alphabet_size", json!(alpha.len()));
    rep.set("entry_points", json!(text_entries.len() + json_entries.len()));
    rep.set("exhaustive", json!(false));
    rep.rule = "for each valid encoding of each type: every single character-level fault (deletion, substitution and insertion of each of the alphabet's symbols incl. multi-byte ones at every character offset, truncation at every boundary) and segment-level faults (duplicate / drop / swap of ; , : = separated pieces, every digit run replaced by huge / empty / negative numbers) fed to that type's parser; a dictionary of hostile strings and all valid encodings fed to every entry point; each parse under catch_unwind with a hang watchdog (10 s in-process, then 60 s alone in a subprocess). non-trivial / distinct = distinct valid encodings and dictionary strings that mutants were derived from (the mutant count is in `mutants`)".into();
    rep.finish()
}

// ---------------------------------------------------------------------------------------------
// C09
// ---------------------------------------------------------------------------------------------

const SUPPORTED_VERSION: u64 = 1;

struct Content {
    name: String,
    json: String,
    price: u64,
    orders: Vec<String>,
    stored: (u64, u64, usize),
    level_repr: String,
    checksum: String,
}

fn content_of(name: String, l: &PriceLevel) -> Option<Content> {
    let j = l.snapshot_to_json().ok()?;
    let pkg = PriceLevelSnapshotPackage::from_json(&j).ok()?;
    Some(Content {
        name,
        price: pkg.snapshot.price,
        orders: pkg.snapshot.orders.iter().map(|o| o.to_string()).collect(),
        stored: (
            pkg.snapshot.visible_quantity,
            pkg.snapshot.hidden_quantity,
            pkg.snapshot.order_count,
        ),
        level_repr: codec::level_repr(l),
        checksum: pkg.checksum.clone(),
        json: j,
    })
}

fn contents(rng: &mut Rng, n: usize) -> Vec<Content> {
    let mut v = Vec::new();
    // richest contents first: they always get the exhaustive treatment
    v.extend(content_of("mixed-5-both-id-formats".into(), &codec::levelv(rng, 5)));
    v.extend(content_of("mixed-3".into(), &codec::levelv(rng, 3)));
    v.extend(content_of("empty".into(), &PriceLevel::new(100)));
    // each order type alone
    for k in model::KINDS {
        let l = PriceLevel::new(7);
        l.add_order(model::mk(
            k,
            codec::idv(rng),
            7,
            5,
            if k.layered() { 9 } else { 0 },
            pricelevel::Side::Sell,
            42,
            codec::tifv(rng),
            &model::Params::default(),
        ));
        v.extend(content_of(format!("single-{}", k.name()), &l));
    }
    let mut i = 0;
    while v.len() < n {
        i += 1;
        if i % 3 == 0 {
            // a level reached by a history
            let mut cfg = hseq::GenCfg::base("c09");
            cfg.len = (5, 25);
            let (_, sut, _) = hseq::gen_and_run_sut(&cfg, Rng::new(rng.next_u64()));
            v.extend(content_of(format!("history-{}", i), &sut.level));
        } else {
            let k = 2 + rng.usize_below(5);
            v.extend(content_of(format!("mixed-{}-{}", k, i), &codec::levelv(rng, k)));
        }
    }
    // order the cheap ones first so that the quick tier's exhaustive part stays small
    v.truncate(n);
    v
}

struct TamperStats {
    mutants: u64,
    rejected: u64,
    accepted_same: u64,
    by_class: BTreeMap<&'static str, u64>,
}

/// "error, or exactly the original content"
fn judge(c: &Content, m: &str, class: &'static str, proper_prefix: bool, st: &mut TamperStats, rep: &mut Report) {
    st.mutants += 1;
    *st.by_class.entry(class).or_default() += 1;
    crate::hook::crumb("from_snapshot_json", m);
    let r = crate::hook::quiet_catch(|| PriceLevel::from_snapshot_json(m));
    let level = match r {
        Err(p) => {
            rep.violation(
                format!("[{}] from_snapshot_json panicked on a {} mutant: {}", c.name, class, crate::sched::panic_message(&*p)),
                json!({"engine": "tamper", "property": "C09", "content": c.name, "class": class, "mutant": m, "original": c.json}),
            );
            return;
        }
        Ok(Err(_)) => {
            st.rejected += 1;
            return;
        }
        Ok(Ok(l)) => l,
    };
    let mut why: Option<String> = None;
    if proper_prefix {
        why = Some("a proper prefix of the package text was accepted".into());
    }
    if why.is_none() && codec::level_repr(&level) != c.level_repr {
        why = Some(format!("restored level differs: {} vs original {}", codec::level_repr(&level), c.level_repr));
    }
    if why.is_none() {
        match PriceLevelSnapshotPackage::from_json(m) {
            Ok(pkg) => {
                let orders: Vec<String> = pkg.snapshot.orders.iter().map(|o| o.to_string()).collect();
                if pkg.snapshot.price != c.price {
                    why = Some("package price differs".into());
                } else if orders != c.orders {
                    why = Some("package order sequence differs".into());
                } else if (pkg.snapshot.visible_quantity, pkg.snapshot.hidden_quantity, pkg.snapshot.order_count) != c.stored {
                    why = Some("stored aggregates differ".into());
                }
            }
            Err(e) => why = Some(format!("accepted by from_snapshot_json but not by from_json: {}", e)),
        }
    }
    // the harness's own reading of the accepted text (independent of how the library's package
    // parser may normalise what it reads): version, price, stored aggregates, order sequence
    if why.is_none() {
        match serde_json::from_str::<Value>(m) {
            Err(e) => why = Some(format!("accepted text is not JSON for the harness: {}", e)),
            Ok(v) => {
                let snap = &v["snapshot"];
                if !v["checksum"].as_str().map(|x| x.eq_ignore_ascii_case(&c.checksum)).unwrap_or(false) {
                    why = Some(format!(
                        "a package whose checksum field is {} was accepted although the checksum of its content is {}",
                        v["checksum"], c.checksum
                    ));
                } else if v["version"].as_u64() != Some(SUPPORTED_VERSION) {
                    why = Some(format!("a package with version {} was accepted (supported: {})", v["version"], SUPPORTED_VERSION));
                } else if snap["price"].as_u64() != Some(c.price) {
                    why = Some(format!("the accepted text carries price {}", snap["price"]));
                } else if (snap["visible_quantity"].as_u64(), snap["hidden_quantity"].as_u64(), snap["order_count"].as_u64())
                    != (Some(c.stored.0), Some(c.stored.1), Some(c.stored.2 as u64))
                {
                    why = Some(format!(
                        "the accepted text carries stored aggregates {}/{}/{} but the snapshot had {}/{}/{}",
                        snap["visible_quantity"], snap["hidden_quantity"], snap["order_count"], c.stored.0, c.stored.1, c.stored.2
                    ));
                } else {
                    let empty = Vec::new();
                    let arr = snap["orders"].as_array().unwrap_or(&empty);
                    let got: Vec<String> = arr
                        .iter()
                        .map(|o| {
                            serde_json::from_value::<pricelevel::OrderType<()>>(o.clone())
                                .map(|x| x.to_string())
                                .unwrap_or_else(|e| format!("<unreadable: {}>", e))
                        })
                        .collect();
                    if got != c.orders {
                        why = Some("the accepted text carries a different order sequence".into());
                    }
                }
            }
        }
    }
    match why {
        None => st.accepted_same += 1,
        Some(w) => rep.violation(
            format!("[{}] tampered package accepted ({} fault): {}", c.name, class, w),
            json!({"engine": "tamper", "property": "C09", "content": c.name, "class": class, "mutant": m, "original": c.json, "finding": w}),
        ),
    }
}

fn number_edits(v: &Value, path: &mut Vec<String>, out: &mut Vec<(Vec<String>, Value)>) {
    match v {
        Value::Number(n) => {
            if let Some(u) = n.as_u64() {
                if u < u64::MAX {
                    out.push((path.clone(), json!(u + 1)));
                }
                if u > 0 {
                    out.push((path.clone(), json!(u - 1)));
                }
                out.push((path.clone(), json!(u ^ (1 << 40))));
            } else if let Some(i) = n.as_i64() {
                out.push((path.clone(), json!(i.wrapping_add(1))));
                out.push((path.clone(), json!(i.wrapping_neg())));
            }
        }
        Value::String(s) => {
            // enum-ish strings and ids
            for (a, b) in [("BUY", "SELL"), ("SELL", "BUY"), ("GTC", "IOC"), ("IOC", "FOK"), ("FOK", "DAY"), ("DAY", "GTC"),
                           ("BestBid", "BestAsk"), ("BestAsk", "MidPrice"), ("MidPrice", "LastTrade"), ("LastTrade", "BestBid")] {
                if s == a {
                    out.push((path.clone(), json!(b)));
                }
            }
            if s.len() >= 26 && path.last().map(|p| p == "id").unwrap_or(false) {
                // another valid id
                let mut t = s.clone();
                let last = t.pop().unwrap();
                t.push(if last == '0' { '1' } else { '0' });
                out.push((path.clone(), json!(t)));
            }
        }
        Value::Bool(b) => out.push((path.clone(), json!(!b))),
        Value::Null => {}
        Value::Array(a) => {
            for (i, x) in a.iter().enumerate() {
                path.push(i.to_string());
                number_edits(x, path, out);
                path.pop();
            }
        }
        Value::Object(o) => {
            for (k, x) in o {
                path.push(k.clone());
                number_edits(x, path, out);
                path.pop();
            }
        }
    }
}

fn set_path(v: &mut Value, path: &[String], new: Value) {
    let mut cur = v;
    for p in path {
        cur = match cur {
            Value::Array(a) => &mut a[p.parse::<usize>().unwrap()],
            Value::Object(o) => o.get_mut(p).unwrap(),
            _ => return,
        };
    }
    *cur = new;
}

fn structural(c: &Content, f: &mut dyn FnMut(String, &'static str)) {
    let v: Value = serde_json::from_str(&c.json).unwrap();
    // every scalar edited, checksum kept
    let mut edits = Vec::new();
    number_edits(&v["snapshot"], &mut vec!["snapshot".to_string()], &mut edits);
    for (path, new) in edits {
        let mut m = v.clone();
        set_path(&mut m, &path, new);
        f(m.to_string(), "scalar-edit");
    }
    // order list: swap / drop / duplicate
    if let Some(orders) = v["snapshot"]["orders"].as_array() {
        for i in 0..orders.len() {
            let mut m = v.clone();
            m["snapshot"]["orders"].as_array_mut().unwrap().remove(i);
            f(m.to_string(), "drop-order");
            let mut m = v.clone();
            let dup = orders[i].clone();
            m["snapshot"]["orders"].as_array_mut().unwrap().insert(i, dup);
            f(m.to_string(), "duplicate-order");
            for k in i + 1..orders.len() {
                if orders[i] != orders[k] {
                    let mut m = v.clone();
                    m["snapshot"]["orders"].as_array_mut().unwrap().swap(i, k);
                    f(m.to_string(), "swap-orders");
                }
            }
            // order type renamed (same fields where possible)
            if let Some(obj) = orders[i].as_object() {
                for (kname, body) in obj {
                    for other in ["Standard", "PostOnly", "MarketToLimit"] {
                        if other != kname {
                            let mut m = v.clone();
                            m["snapshot"]["orders"][i] = json!({ other: body.clone() });
                            f(m.to_string(), "retype-order");
                        }
                    }
                }
            }
        }
        // an extra order appended
        let mut m = v.clone();
        m["snapshot"]["orders"].as_array_mut().unwrap().push(json!({"Standard": {"id": "00000000-0000-0000-0000-0000000000aa", "price": c.price, "quantity": 1, "side": "BUY", "timestamp": 1, "time_in_force": "GTC", "extra_fields": null}}));
        f(m.to_string(), "append-order");
    }
    block_edits(c, &v, f);
    // version: neighbours, extremes, and every value that agrees with the supported one in its low
    // bits (supported + 2^k) or is a lone power of two
    let mut versions = vec![0u64, 2, 3, u32::MAX as u64, u64::MAX];
    for k in 1..64 {
        versions.push(SUPPORTED_VERSION.wrapping_add(1u64 << k));
        versions.push(1u64 << k);
    }
    versions.sort();
    versions.dedup();
    for ver in versions {
        if ver == SUPPORTED_VERSION {
            continue;
        }
        let mut m = v.clone();
        m["version"] = json!(ver);
        f(m.to_string(), "version");
    }
    // checksum
    let cs = v["checksum"].as_str().unwrap_or("").to_string();
    let mut variants = vec![String::new(), cs[..cs.len().saturating_sub(1)].to_string(), format!("{}0", cs), "deadbeef".to_string()];
    for i in 0..cs.len() {
        let mut b: Vec<char> = cs.chars().collect();
        b[i] = if b[i] == '0' { '1' } else { '0' };
        variants.push(b.into_iter().collect());
    }
    for cv in variants {
        let mut m = v.clone();
        m["checksum"] = json!(cv);
        f(m.to_string(), "checksum");
    }
    // a checksum variant together with a content edit (a validation shortcut keyed on the
    // checksum field must not let edited content through)
    {
        let mut edits = Vec::new();
        number_edits(&v["snapshot"], &mut vec!["snapshot".to_string()], &mut edits);
        for (path, new) in edits.into_iter().take(24) {
            for cv in ["", "0", "deadbeef", "null"] {
                let mut m = v.clone();
                set_path(&mut m, &path, new.clone());
                m["checksum"] = if cv == "null" { Value::Null } else { json!(cv) };
                f(m.to_string(), "checksum-variant+edit");
            }
        }
    }
    // digits moved between adjacent header numbers (a checksum over an ambiguous concatenation of
    // the fields would not notice)
    {
        let names = ["price", "visible_quantity", "hidden_quantity", "order_count"];
        for w in 0..3 {
            let a = v["snapshot"][names[w]].as_u64().unwrap_or(0).to_string();
            let b = v["snapshot"][names[w + 1]].as_u64().unwrap_or(0).to_string();
            for k in 1..=3usize {
                // a gives its last k digits to the front of b
                if a.len() > k {
                    let (na, nb) = (a[..a.len() - k].to_string(), format!("{}{}", &a[a.len() - k..], b));
                    if let (Ok(x), Ok(y)) = (na.parse::<u64>(), nb.parse::<u64>()) {
                        if x.to_string() == na && y.to_string() == nb {
                            let mut m = v.clone();
                            m["snapshot"][names[w]] = json!(x);
                            m["snapshot"][names[w + 1]] = json!(y);
                            f(m.to_string(), "digits-moved-between-fields");
                        }
                    }
                }
                // b gives its first k digits to the end of a
                if b.len() > k {
                    let (na, nb) = (format!("{}{}", a, &b[..k]), b[k..].to_string());
                    if let (Ok(x), Ok(y)) = (na.parse::<u64>(), nb.parse::<u64>()) {
                        if x.to_string() == na && y.to_string() == nb {
                            let mut m = v.clone();
                            m["snapshot"][names[w]] = json!(x);
                            m["snapshot"][names[w + 1]] = json!(y);
                            f(m.to_string(), "digits-moved-between-fields");
                        }
                    }
                }
            }
        }
    }
    // members dropped
    for k in ["version", "snapshot", "checksum"] {
        let mut m = v.clone();
        m.as_object_mut().unwrap().remove(k);
        f(m.to_string(), "drop-member");
    }
    for k in ["price", "visible_quantity", "hidden_quantity", "order_count"] {
        let mut m = v.clone();
        m["snapshot"].as_object_mut().unwrap().remove(k);
        f(m.to_string(), "drop-member");
    }
    // different content re-checksummed by the harness under an unsupported version
    if let Ok(pkg) = PriceLevelSnapshotPackage::from_json(&c.json) {
        let mut snap = pkg.snapshot.clone();
        snap.price = snap.price.wrapping_add(1);
        if let Ok(p2) = PriceLevelSnapshotPackage::new(snap) {
            let mut m: Value = serde_json::from_str(&p2.to_json().unwrap()).unwrap();
            m["version"] = json!(2);
            f(m.to_string(), "rechecksummed-other-version");
        }
    }
}

/// Re-sequencing of whole blocks of the order list (sizes: powers of two and of ten): adjacent
/// blocks swapped, the list rotated by a block, the list reversed.  A digest that treats blocks
/// independently (chunked, parallel, XOR-combined) is blind to exactly these.
fn block_edits(_c: &Content, v: &Value, f: &mut dyn FnMut(String, &'static str)) {
    let Some(orders) = v["snapshot"]["orders"].as_array() else { return };
    let n = orders.len();
    if n < 2 {
        return;
    }
    let mut sizes: Vec<usize> = (0..12).map(|k| 1usize << k).chain([10, 100, 1000]).filter(|b| 2 * *b <= n).collect();
    sizes.sort();
    sizes.dedup();
    let mut emit = |list: Vec<Value>, class: &'static str| {
        if &list != orders {
            let mut m = v.clone();
            m["snapshot"]["orders"] = Value::Array(list);
            f(m.to_string(), class);
        }
    };
    for b in sizes {
        // first two blocks, last two aligned blocks
        for start in [0usize, (n / b - 2) * b] {
            let mut l = orders.clone();
            for i in 0..b {
                l.swap(start + i, start + b + i);
            }
            emit(l, "swap-order-blocks");
        }
        let mut l = orders.clone();
        l.rotate_left(b);
        emit(l, "rotate-order-list");
    }
    let mut l = orders.clone();
    l.reverse();
    emit(l, "reverse-order-list");
}

pub fn c09(tier: Tier, seed: u64) -> i32 {
    let mut rep = Report::new("C09", tier, seed, "fault_enumeration");
    let nw = ncpu();
    let alpha = alphabet();
    let mut rng = Rng::derive(seed ^ 0xc09, 0);
    let n_contents = budget(tier, 16, 400) as usize;
    let all = contents(&mut rng, n_contents);
    let wide: Vec<Content> = {
        let sizes: &[usize] = match tier {
            Tier::Quick => &[9, 10, 11, 100, 130, 600],
            Tier::Thorough => &[9, 10, 11, 31, 33, 64, 99, 100, 101, 130, 256, 257, 600, 1000, 1030, 2100, 4100],
        };
        sizes
            .iter()
            .filter_map(|n| content_of(format!("wide-{}", n), &codec::levelv(&mut rng, *n)))
            .collect()
    };
    // single faults over the whole alphabet are enumerated exhaustively for the first contents;
    // the remaining contents get all deletions / truncations / structural edits and sampled rest
    let n_exhaustive = budget(tier, 16, 200) as usize;
    let n_pairs = budget(tier, 200_000, 40_000_000);
    let jobs: Vec<(usize, u8)> = (0..all.len()).flat_map(|i| (0..4u8).map(move |j| (i, j))).collect();
    parallel(nw, &mut rep, |w| {
        let mut part = Report::new("C09", tier, seed, "fault_enumeration");
        let mut st = TamperStats {
            mutants: 0,
            rejected: 0,
            accepted_same: 0,
            by_class: BTreeMap::new(),
        };
        let mut rng = Rng::derive(seed ^ 0x9c09, w as u64 + 1);
        for (ji, (ci, slice)) in jobs.iter().enumerate() {
            if ji % nw != w {
                continue;
            }
            let c = &all[*ci];
            if *slice == 0 {
                // sanity: the untouched package restores to the original content
                let mut s0 = TamperStats { mutants: 0, rejected: 0, accepted_same: 0, by_class: BTreeMap::new() };
                judge(c, &c.json, "identity", false, &mut s0, &mut part);
                if s0.accepted_same != 1 {
                    part.violation(
                        format!("[{}] the untouched package is not restored to its own content", c.name),
                        json!({"engine": "tamper", "content": c.name, "original": c.json}),
                    );
                }
                structural(c, &mut |m, class| judge(c, &m, class, false, &mut st, &mut part));
                part.distinct.insert(fnv(c.json.as_bytes()));
                if part.samples.len() < 2 {
                    part.sample(json!({"content": c.name, "package": c.json}));
                }
            }
            // the character-level faults, split in four slices by offset so the cores share one content
            let exhaustive = *ci < n_exhaustive;
            let chars = c.json.chars().count();
            let lo = chars * (*slice as usize) / 4;
            let hi = chars * (*slice as usize + 1) / 4;
            let idx: Vec<(usize, char)> = c.json.char_indices().collect();
            let mut buf = String::with_capacity(c.json.len() + 8);
            for n in lo..hi {
                let (i, ch) = idx[n];
                let next = idx.get(n + 1).map(|x| x.0).unwrap_or(c.json.len());
                buf.clear();
                buf.push_str(&c.json[..i]);
                buf.push_str(&c.json[next..]);
                judge(c, &buf, "deletion", false, &mut st, &mut part);
                judge(c, &c.json[..i], "truncation", true, &mut st, &mut part);
                for a in &alpha {
                    if !exhaustive && !rng.chance(1, 12) {
                        continue;
                    }
                    if *a != ch {
                        buf.clear();
                        buf.push_str(&c.json[..i]);
                        buf.push(*a);
                        buf.push_str(&c.json[next..]);
                        judge(c, &buf, "substitution", false, &mut st, &mut part);
                    }
                    buf.clear();
                    buf.push_str(&c.json[..i]);
                    buf.push(*a);
                    buf.push_str(&c.json[i..]);
                    judge(c, &buf, "insertion", false, &mut st, &mut part);
                }
            }
            if *slice == 3 {
                for a in &alpha {
                    buf.clear();
                    buf.push_str(&c.json);
                    buf.push(*a);
                    judge(c, &buf, "insertion", false, &mut st, &mut part);
                }
            }
        }
        // wide contents (tens to a thousand orders: decimal widths of counts change, buffers and
        // capacity hints are outgrown): structural edits completely, character faults sampled
        for (wi, c) in wide.iter().enumerate() {
            for slice in 0..4usize {
                if (wi * 4 + slice) % nw != w {
                    continue;
                }
                if slice == 0 {
                    let mut s0 = TamperStats { mutants: 0, rejected: 0, accepted_same: 0, by_class: BTreeMap::new() };
                    judge(c, &c.json, "identity", false, &mut s0, &mut part);
                    if s0.accepted_same != 1 {
                        part.violation(
                            format!("[{}] the untouched package is not restored to its own content", c.name),
                            json!({"engine": "tamper", "content": c.name, "original": c.json}),
                        );
                    }
                    if c.orders.len() <= 150 {
                        structural(c, &mut |m, class| judge(c, &m, class, false, &mut st, &mut part));
                    } else if let Ok(v) = serde_json::from_str::<Value>(&c.json) {
                        block_edits(c, &v, &mut |m, class| judge(c, &m, class, false, &mut st, &mut part));
                    }
                    part.distinct.insert(fnv(c.json.as_bytes()));
                }
                let bytes = c.json.as_bytes();
                let n_pos = if c.orders.len() <= 150 { 250 } else { 40 };
                let mut buf = String::with_capacity(c.json.len() + 8);
                for _ in 0..n_pos {
                    // the package is ASCII (ids, numbers, names): byte offsets are char offsets
                    let i = rng.usize_below(bytes.len());
                    if !c.json.is_char_boundary(i) || !c.json.is_char_boundary(i + 1) {
                        continue;
                    }
                    buf.clear();
                    buf.push_str(&c.json[..i]);
                    buf.push_str(&c.json[i + 1..]);
                    judge(c, &buf, "deletion", false, &mut st, &mut part);
                    judge(c, &c.json[..i], "truncation", true, &mut st, &mut part);
                    let a = *rng.pick(&alpha);
                    if a as u32 != bytes[i] as u32 {
                        buf.clear();
                        buf.push_str(&c.json[..i]);
                        buf.push(a);
                        buf.push_str(&c.json[i + 1..]);
                        judge(c, &buf, "substitution", false, &mut st, &mut part);
                    }
                    buf.clear();
                    buf.push_str(&c.json[..i]);
                    buf.push(a);
                    buf.push_str(&c.json[i..]);
                    judge(c, &buf, "insertion", false, &mut st, &mut part);
                }
            }
        }
        // seeded pairs of faults
        let mut k = w as u64;
        while k < n_pairs {
            let c = &all[rng.usize_below(all.len())];
            let mut m: Vec<char> = c.json.chars().collect();
            for _ in 0..2 {
                if m.is_empty() {
                    break;
                }
                let pos = rng.usize_below(m.len());
                match rng.below(3) {
                    0 => {
                        m.remove(pos);
                    }
                    1 => m[pos] = *rng.pick(&alpha),
                    _ => m.insert(pos, *rng.pick(&alpha)),
                }
            }
            let s: String = m.into_iter().collect();
            if s != c.json {
                judge(c, &s, "fault-pair", false, &mut st, &mut part);
            }
            k += nw as u64;
        }
        part.evaluations = st.mutants;
        part.add("rejected", st.rejected);
        part.add("accepted_with_identical_content", st.accepted_same);
        part.set("mutants_per_fault_class", json!(st.by_class));
        part
    });
    rep.set("contents", json!(all.iter().map(|c| format!("{} ({} bytes, {} orders)", c.name, c.json.len(), c.orders.len())).collect::<Vec<_>>()));
    rep.set("contents_with_exhaustive_single_faults", json!(n_exhaustive.min(all.len())));
    rep.set("wide_contents(structural edits complete up to 150 orders, character faults sampled)", json!(wide.iter().map(|c| format!("{} ({} bytes, {} orders)", c.name, c.json.len(), c.orders.len())).collect::<Vec<_>>()));
    rep.set("exhaustive", json!(true));
    rep.set(
        "exhaustive_scope",
        json!(format!(
            "for the first {} contents every single-character deletion, every truncation point, and substitution + insertion of each of the {} alphabet symbols at every offset are enumerated completely, as are the structural edits (every scalar +-1 / flipped, order swap / drop / duplicate / retype / append, version, every checksum nibble, dropped members) for all contents; the other contents get all deletions / truncations and a 1/12 sample of substitutions / insertions; fault pairs are sampled",
            n_exhaustive.min(all.len()),
            alpha.len()
        )),
    );
    rep.rule = "faults injected into the serialized snapshot package of each content; oracle: from_snapshot_json returns an error, or a level and package whose price, order sequence field for field, stored aggregates, listing and aggregates are exactly the original's (mutations that do not change the meaning, e.g. whitespace or hex case, are accepted with identical content); any accepted proper prefix is a violation. non-trivial / distinct = distinct package contents that were tampered with (the mutant count is `evaluations`)".into();
    rep.min_nontrivial = 2;
    rep.finish()
}

#[allow(dead_code)]
fn unused() {
    let _ = observe;
}

// ---------------------------------------------------------------------------------------------
// `mini-codec`: a small batch of round-trips and mutants, meant to run under Miri (UB detection on
// the parser / printer paths, e.g. an `unsafe` shortcut introduced into a scanner)
// ---------------------------------------------------------------------------------------------

pub fn mini_codec(seed: u64, n: usize) -> i32 {
    let mut rng = Rng::derive(seed ^ 0x3c0d, 1);
    let mut st = RtStats::default();
    codec::text_batch(&mut rng, false, n, &mut st);
    codec::json_batch(&mut rng, false, n, &mut st);
    let mut parses = 0u64;
    let mut panics: Vec<String> = Vec::new();
    let alpha = ['é', '€', ';', '=', ':', '[', ']', ',', '0', '😀', '\0'];
    let mut seeds = codec::seeds_text(&mut rng, 1);
    seeds.extend(codec::seeds_json(&mut rng, 1));
    let entries: Vec<(&'static str, ParseFn)> = codec::text_entries().into_iter().chain(codec::json_entries()).collect();
    for (entry, enc) in seeds.iter() {
        let f = match entries.iter().find(|(n, _)| n == entry) {
            Some(x) => x.1,
            None => continue,
        };
        // a thin sample of the single-fault space (Miri is ~10^4 x slower than native)
        let chars: Vec<(usize, char)> = enc.char_indices().collect();
        for _ in 0..(3 * n).max(3) {
            if chars.is_empty() {
                break;
            }
            let (i, c) = chars[rng.usize_below(chars.len())];
            let a = *rng.pick(&alpha);
            let m = match rng.below(3) {
                0 => format!("{}{}", &enc[..i], &enc[i + c.len_utf8()..]),
                1 => format!("{}{}{}", &enc[..i], a, &enc[i + c.len_utf8()..]),
                _ => format!("{}{}{}", &enc[..i], a, &enc[i..]),
            };
            parses += 1;
            if let Err(p) = crate::hook::quiet_catch(|| f(&m)) {
                panics.push(format!("{} panicked on {:?}: {}", entry, m, crate::sched::panic_message(&*p)));
            }
        }
    }
    for d in codec::dictionary().iter().filter(|d| d.len() < 200) {
        for (name, f) in entries.iter() {
            parses += 1;
            if let Err(p) = crate::hook::quiet_catch(|| f(d)) {
                panics.push(format!("{} panicked on {:?}: {}", name, d, crate::sched::panic_message(&*p)));
            }
        }
    }
    println!("MINI-CODEC round_trips={} parses={} failures={} panics={}", st.total, parses, st.failures.len(), panics.len());
    for (n, w) in st.failures.iter().take(5) {
        println!("MINI-CODEC-VIOLATION round-trip {}: {}", n, w);
    }
    for p in panics.iter().take(5) {
        println!("MINI-CODEC-VIOLATION {}", p);
    }
    if st.failures.is_empty() && panics.is_empty() {
        0
    } else {
        1
    }
}

/// thorough tier of C18: the batch above under Miri
pub fn miri_codec(rep: &mut Report) {
    use std::process::Command;
    let dir = format!("{}/harness", crate::report::verif_dir());
    let t0 = Instant::now();
    let out = Command::new("cargo")
        .current_dir(&dir)
        .env("MIRIFLAGS", "-Zmiri-disable-isolation -Zmiri-many-seeds=0..4")
        .env("CARGO_NET_OFFLINE", "true")
        .args(["+nightly", "miri", "run", "--offline", "--", "mini-codec"])
        .arg(rep.seed.to_string())
        .arg("2")
        .output();
    let out = match out {
        Ok(o) => o,
        Err(e) => {
            rep.inconclusive(format!("Miri codec batch could not be started: {}", e));
            return;
        }
    };
    let so = String::from_utf8_lossy(&out.stdout).to_string();
    let se = String::from_utf8_lossy(&out.stderr).to_string();
    let runs = so.lines().filter(|l| l.starts_with("MINI-CODEC round_trips")).count();
    let parses: u64 = so
        .lines()
        .filter(|l| l.starts_with("MINI-CODEC round_trips"))
        .filter_map(|l| l.split("parses=").nth(1).and_then(|x| x.split_whitespace().next()).and_then(|x| x.parse::<u64>().ok()))
        .sum();
    rep.add("miri_codec_runs", runs as u64);
    rep.add("miri_codec_parses", parses);
    rep.set("miri_codec_wall_s", json!(t0.elapsed().as_secs()));
    let mut reported = false;
    if se.contains("Undefined Behavior") {
        let at = se.find("Undefined Behavior").unwrap_or(0);
        let mut a = at.saturating_sub(200);
        while !se.is_char_boundary(a) {
            a += 1;
        }
        let mut b = (at + 1500).min(se.len());
        while !se.is_char_boundary(b) {
            b -= 1;
        }
        rep.violation(
            "Miri reported undefined behaviour on a parser / printer path".into(),
            json!({"engine": "miri-codec", "diagnostic": &se[a..b]}),
        );
        reported = true;
    }
    for l in so.lines().filter(|l| l.starts_with("MINI-CODEC-VIOLATION")).take(3) {
        rep.violation(format!("under Miri: {}", &l[..l.len().min(500)]), json!({"engine": "miri-codec", "line": l}));
        reported = true;
    }
    if !reported && (!out.status.success() || runs == 0) {
        let tail: String = se.lines().rev().take(8).collect::<Vec<_>>().into_iter().rev().collect::<Vec<_>>().join(" | ");
        rep.inconclusive(format!("Miri codec batch ended with {:?} without a verdict: {}", out.status.code(), &tail[..tail.len().min(500)]));
    }
}
