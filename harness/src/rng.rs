//! Small deterministic PRNG (splitmix64).  Every generator and scheduler in the harness draws
//! from one of these, seeded from VERIF_SEED, so that every case is replayable.

#[derive(Clone, Debug)]
pub struct Rng(pub u64);

impl Rng {
    pub fn new(seed: u64) -> Self {
        let mut r = Rng(seed ^ 0x9E37_79B9_7F4A_7C15);
        r.next_u64();
        r
    }

    /// Derive an independent stream (for case `i` of a run seeded with `seed`).
    pub fn derive(seed: u64, stream: u64) -> Self {
        let mut r = Rng(seed.wrapping_mul(0xA24B_AED4_963E_E407) ^ stream.wrapping_mul(0x9FB2_1C65_1E98_DF25));
        r.next_u64();
        r.next_u64();
        r
    }

    #[inline]
    pub fn next_u64(&mut self) -> u64 {
        self.0 = self.0.wrapping_add(0x9E37_79B9_7F4A_7C15);
        let mut z = self.0;
        z = (z ^ (z >> 30)).wrapping_mul(0xBF58_476D_1CE4_E5B9);
        z = (z ^ (z >> 27)).wrapping_mul(0x94D0_49BB_1331_11EB);
        z ^ (z >> 31)
    }

    /// uniform in 0..n (n > 0)
    #[inline]
    pub fn below(&mut self, n: u64) -> u64 {
        debug_assert!(n > 0);
        self.next_u64() % n
    }

    /// uniform in lo..=hi
    #[inline]
    pub fn range(&mut self, lo: u64, hi: u64) -> u64 {
        debug_assert!(lo <= hi);
        if lo == 0 && hi == u64::MAX {
            return self.next_u64();
        }
        lo + self.below(hi - lo + 1)
    }

    #[inline]
    pub fn usize_below(&mut self, n: usize) -> usize {
        self.below(n as u64) as usize
    }

    /// true with probability num/den
    #[inline]
    pub fn chance(&mut self, num: u64, den: u64) -> bool {
        self.below(den) < num
    }

    pub fn pick<'a, T>(&mut self, xs: &'a [T]) -> &'a T {
        &xs[self.usize_below(xs.len())]
    }

    /// index drawn according to integer weights
    pub fn weighted(&mut self, weights: &[u32]) -> usize {
        let total: u64 = weights.iter().map(|w| *w as u64).sum();
        let mut x = self.below(total.max(1));
        for (i, w) in weights.iter().enumerate() {
            if x < *w as u64 {
                return i;
            }
            x -= *w as u64;
        }
        weights.len() - 1
    }

    pub fn shuffle<T>(&mut self, xs: &mut [T]) {
        for i in (1..xs.len()).rev() {
            let j = self.usize_below(i + 1);
            xs.swap(i, j);
        }
    }
}

/// FNV-1a over bytes; used for "distinct case" counting.
pub fn fnv(bytes: &[u8]) -> u64 {
    let mut h: u64 = 0xcbf2_9ce4_8422_2325;
    for b in bytes {
        h ^= *b as u64;
        h = h.wrapping_mul(0x0000_0100_0000_01B3);
    }
    h
}

pub fn fnv_mix(h: u64, x: u64) -> u64 {
    let mut h = h;
    for b in x.to_le_bytes() {
        h ^= b as u64;
        h = h.wrapping_mul(0x0000_0100_0000_01B3);
    }
    h
}
