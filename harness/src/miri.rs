//! Thorough-tier Miri sweep: runs `plv mini` under `cargo +nightly miri run` with many seeds.
//! Miri contributes (i) UB / data-race detection in pricelevel and in the DashMap / SegQueue
//! internals the programs drive, (ii) preemption at basic-block granularity, (iii) weak-memory
//! emulation; the history checkers compiled into `mini` judge every execution.

use crate::report::{verif_dir, Report};
use serde_json::json;
use std::collections::HashSet;
use std::process::Command;
use std::time::{Duration, Instant};

/// `family`: "level", "queue" or "id generator" — which MINI-VIOLATION lines belong to the
/// calling check (UB / data-race diagnostics are reported by every caller).
pub fn sweep(rep: &mut Report, family: &str, prog_seed: u64, programs: u64, seeds: u64, preemption_rate: &str) {
    let dir = format!("{}/harness", verif_dir());
    let t0 = Instant::now();
    let flags = format!(
        "-Zmiri-disable-isolation -Zmiri-many-seeds=0..{} -Zmiri-preemption-rate={}",
        seeds, preemption_rate
    );
    let out = Command::new("cargo")
        .current_dir(&dir)
        .env("MIRIFLAGS", &flags)
        .env("CARGO_NET_OFFLINE", "true")
        .args(["+nightly", "miri", "run", "--offline", "--", "mini"])
        .arg(prog_seed.to_string())
        .arg(programs.to_string())
        .output();
    let out = match out {
        Ok(o) => o,
        Err(e) => {
            rep.inconclusive(format!("Miri sweep could not be started: {}", e));
            return;
        }
    };
    let stdout = String::from_utf8_lossy(&out.stdout).to_string();
    let stderr = String::from_utf8_lossy(&out.stderr).to_string();
    let outcomes: Vec<&str> = stdout.lines().filter(|l| l.starts_with("MINI-OUTCOME")).collect();
    let distinct: HashSet<&str> = outcomes.iter().copied().collect();
    rep.add("miri_runs", outcomes.len() as u64);
    rep.add("miri_distinct_outcomes", distinct.len() as u64);
    rep.add("miri_programs_per_run", programs);
    rep.set("miri_flags", json!(flags));
    rep.set("miri_wall_s", json!(t0.elapsed().as_secs()));
    let mut reported = false;
    for l in stdout.lines().filter(|l| l.starts_with("MINI-VIOLATION")) {
        if l.contains(&format!("MINI-VIOLATION {} program", family)) {
            rep.violation(
                format!("under Miri: {}", &l[..l.len().min(600)]),
                json!({"engine": "miri", "program_seed": prog_seed, "programs": programs, "flags": flags, "line": l,
                       "how_to_replay": "cd /verif/harness && MIRIFLAGS='-Zmiri-disable-isolation -Zmiri-seed=<failing seed>' cargo +nightly miri run --offline -- mini <program_seed> <programs>"}),
            );
            reported = true;
        }
    }
    let ub = stderr.contains("Undefined Behavior") || stderr.contains("Data race detected") || stderr.contains("data race");
    if ub {
        let at = stderr.find("Undefined Behavior").or_else(|| stderr.find("ata race")).unwrap_or(0);
        let lo = at.saturating_sub(200);
        let mut a = lo;
        while !stderr.is_char_boundary(a) {
            a += 1;
        }
        let mut b = (at + 1500).min(stderr.len());
        while !stderr.is_char_boundary(b) {
            b -= 1;
        }
        rep.violation(
            "Miri reported undefined behaviour / a data race on a path the programs drive".into(),
            json!({"engine": "miri", "program_seed": prog_seed, "programs": programs, "flags": flags, "diagnostic": &stderr[a..b]}),
        );
        reported = true;
    }
    if !out.status.success() && !reported {
        let other_family = stdout.lines().any(|l| l.starts_with("MINI-VIOLATION"));
        if !other_family {
            let tail: String = stderr.lines().rev().take(12).collect::<Vec<_>>().into_iter().rev().collect::<Vec<_>>().join(" | ");
            rep.inconclusive(format!("Miri sweep exited with {:?} without a verdict: {}", out.status.code(), &tail[..tail.len().min(600)]));
        }
    }
    if outcomes.is_empty() && !reported {
        rep.inconclusive("Miri sweep produced no execution".into());
    }
    if t0.elapsed() > Duration::from_secs(3600) {
        rep.inconclusive("Miri sweep took more than an hour".into());
    }
}
