//! C05 — per-order matching rules: exhaustive small grid + 64-bit boundary set on the public
//! `match_against`, plus the same rules seen through `PriceLevel::match_order` (H-seq).

use crate::checks_seq::{self, budget};
use crate::model::{self, Kind, Params, KINDS};
use crate::report::{Report, Tier};
use crate::rng::fnv_mix;
use pricelevel::{Side, TimeInForce};
use serde_json::json;

fn one(
    rep: &mut Report,
    kind: Kind,
    d: u64,
    h: u64,
    thr: u64,
    amt: Option<u64>,
    auto: bool,
    q: u64,
    cells: &mut [u64; 7],
) {
    let p = Params {
        thr,
        amt,
        auto,
        ..Params::default()
    };
    let o = model::mk(kind, model::oid(7), 100, d, h, Side::Sell, 1234, TimeInForce::Gtc, &p);
    rep.evaluations += 1;
    cells[kind.idx()] += 1;
    let r = crate::hook::quiet_catch(|| o.match_against(q));
    let verdict = match &r {
        Ok(res) => model::rules_ok(&o, q, res),
        Err(e) => Err(format!("match_against panicked: {}", crate::sched::panic_message(&**e))),
    };
    if q > 0 {
        let mut hsh = fnv_mix(kind as u64, d);
        for x in [h, thr, amt.map(|a| a.wrapping_add(2)).unwrap_or(1), auto as u64, q] {
            hsh = fnv_mix(hsh, x);
        }
        rep.distinct.insert(hsh);
    }
    if let Err(e) = verdict {
        rep.violation(
            format!("match_against({}, incoming {}): {}", model::short(&o), q, e),
            json!({"engine": "grid", "property": "C05", "order": o.to_string(), "incoming": q,
                   "observed": format!("{:?}", r.ok().map(|(c, u, hr, rem)| (c, u.map(|x| x.to_string()), hr, rem))),
                   "finding": e}),
        );
    }
}

pub fn run(tier: Tier, seed: u64) -> i32 {
    let mut rep = Report::new("C05", tier, seed, "exploration");
    checks_seq::std_assumptions(&mut rep);
    let top: u64 = tier.pick(5, 9);
    let mut small: Vec<u64> = (0..=top).collect();
    let mut hiddens = small.clone();
    hiddens.extend([79, 80, 81, 200]);
    let mut amts: Vec<Option<u64>> = vec![None];
    amts.extend(small.iter().map(|x| Some(*x)));
    amts.push(Some(100));
    let mut qs: Vec<u64> = (0..=top + 2).collect();
    qs.extend([85, 300]);
    let mut cells = [0u64; 7];
    let mut grid_cases = 0u64;
    for kind in KINDS {
        for &d in &small {
            let hs: &[u64] = if kind.layered() { &hiddens } else { &[0] };
            for &h in hs {
                if kind == Kind::Reserve {
                    for &thr in &small {
                        for amt in &amts {
                            for auto in [false, true] {
                                for &q in &qs {
                                    one(&mut rep, kind, d, h, thr, *amt, auto, q, &mut cells);
                                    grid_cases += 1;
                                }
                            }
                        }
                    }
                } else {
                    for &q in &qs {
                        one(&mut rep, kind, d, h, 0, None, true, q, &mut cells);
                        grid_cases += 1;
                    }
                }
            }
        }
    }
    small.clear();
    // 64-bit boundary values, displayed + hidden <= u64::MAX
    let edge: [u64; 8] = [0, 1, 2, 1 << 32, (1 << 53) + 1, 1 << 63, u64::MAX - 1, u64::MAX];
    let mut boundary_cases = 0u64;
    for kind in KINDS {
        for &d in &edge {
            let hs: Vec<u64> = if kind.layered() {
                edge.iter().copied().filter(|h| d.checked_add(*h).is_some()).collect()
            } else {
                vec![0]
            };
            for h in hs {
                for &q in &edge {
                    if kind == Kind::Reserve {
                        for thr in [0, 1, 1 << 63, u64::MAX] {
                            for amt in [None, Some(0), Some(1), Some(1 << 63), Some(u64::MAX)] {
                                for auto in [false, true] {
                                    one(&mut rep, kind, d, h, thr, amt, auto, q, &mut cells);
                                    boundary_cases += 1;
                                }
                            }
                        }
                    } else {
                        one(&mut rep, kind, d, h, 0, None, true, q, &mut cells);
                        boundary_cases += 1;
                    }
                }
            }
        }
    }
    // mid magnitudes, sampled: between the small grid and the 64-bit edge values lie the sizes
    // real orders have; every quantity is drawn *relative* to the displayed one (equal, one off,
    // within a percent, half, double) because that is where rules written with ratios,
    // percentages or signed differences change their answer
    let mut rng = crate::rng::Rng::derive(seed ^ 0xc05, 0);
    let n_mid = budget(tier, 300_000, 20_000_000);
    let mut mid_cases = 0u64;
    let mut rel = |rng: &mut crate::rng::Rng, d: u64| -> u64 {
        let x = match rng.below(12) {
            0 => d,
            1 => d.saturating_add(1),
            2 => d.saturating_sub(1),
            3 => d.saturating_add(d / 100),
            4 => d.saturating_add(d / 200 + 1),
            5 => d - d / 100,
            6 => d / 2,
            7 => d.saturating_mul(2),
            8 => d.saturating_mul(2).saturating_add(1),
            9 => rng.below(10),
            10 => rng.range(0, d.saturating_mul(3).max(1)),
            _ => d.saturating_add(rng.below(16)),
        };
        x.min(1 << 62)
    };
    for i in 0..n_mid {
        let kind = KINDS[(i % 7) as usize];
        let mag = *rng.pick(&[100u64, 1_000, 10_000, 1_000_000, 1 << 31, 1 << 40]);
        let d = match rng.below(4) {
            0 => mag,
            1 => rng.range(1, mag),
            2 => mag + rng.below(10),
            _ => rng.range(mag / 2, mag.saturating_mul(2)),
        };
        let h = if kind.layered() { rel(&mut rng, d) } else { 0 };
        let q = match rng.below(4) {
            0 => rel(&mut rng, d),
            1 => rel(&mut rng, d.saturating_add(h)),
            2 => d.saturating_add(h),
            _ => rel(&mut rng, d),
        };
        let (thr, amt, auto) = if kind == Kind::Reserve {
            (
                rel(&mut rng, d),
                match rng.below(3) {
                    0 => None,
                    _ => Some(rel(&mut rng, d)),
                },
                rng.chance(3, 4),
            )
        } else {
            (0, None, true)
        };
        one(&mut rep, kind, d, h, thr, amt, auto, q, &mut cells);
        mid_cases += 1;
    }
    rep.set("mid_magnitude_cases(sampled, quantities relative to the display)", json!(mid_cases));
    rep.set("grid_cases", json!(grid_cases));
    rep.set("boundary_cases", json!(boundary_cases));
    rep.set(
        "grid_cases_per_type",
        json!(KINDS.iter().map(|k| (k.name(), cells[k.idx()])).collect::<std::collections::BTreeMap<_, _>>()),
    );
    rep.set("exhaustive", json!(true));
    rep.set(
        "exhaustive_scope",
        json!(format!(
            "the grid 7 types x display 0..={top} x hidden {{0..={top},79,80,81,200}} x threshold 0..={top} x amount {{None,0..={top},100}} x auto x incoming {{0..={},85,300}} and the listed 64-bit boundary cross-product were enumerated completely; the H-seq part is sampled",
            top + 2
        )),
    );
    rep.sample(json!({"grid case": "Reserve display=2 hidden=81 threshold=3 amount=None auto=true incoming=1 -> consumed 1, display 1+80, hidden 1"}));
    // the same rules seen through PriceLevel::match_order
    let chk = checks_seq::c05_level();
    let n = budget(tier, 5_000, 2_000_000);
    checks_seq::run_seq(&chk, &mut rep, n);
    rep.rule = format!(
        "direct calls of match_against over an exhaustive small grid and a 64-bit boundary cross-product, judged by a relation written from the statement (accepts every allowed tranche size); plus {} non-trivial = incoming > 0 (grid) / history with at least one transaction (H-seq); distinct = distinct (order, incoming) tuples / distinct histories",
        checks_seq::RULE_HSEQ
    );
    rep.finish()
}
