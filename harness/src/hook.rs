//! The process-wide hook installed into pricelevel's `verif` wrappers, and the per-thread mode
//! that decides what a hook event does on the calling thread:
//!
//! * `Off`    nothing (monitor reads, setup code, threads the harness does not control)
//! * `Count`  single-threaded histories: count scheduling points, panic past a step budget
//! * `Sched`  E1: hand the baton back to the scheduler and wait to be chosen again
//! * `Delay`  E2: free-running thread, seeded delay injection before the operation

use crate::rng::Rng;
use crate::sched::Shared;
use pricelevel::verif::{Op, Site};
use std::cell::{Cell, RefCell};
use std::sync::Arc;

pub const OVERRUN_MSG: &str = "plv-step-budget-overrun";
/// step budget of one API call made by a free-running (E2 / Miri / TSan) thread
pub const FREE_RUN_CALL_BUDGET: u64 = 3_000_000;

#[derive(Clone, Copy, Debug)]
pub struct Ev {
    pub seq: u64,
    pub op: Op,
    pub obj: usize,
    pub key: u128,
    pub after: bool,
    pub hit: bool,
    pub line: u32,
    pub file: &'static str,
}

pub enum Mode {
    Off,
    Count,
    Sched(Arc<Shared>, usize),
    Delay,
}

thread_local! {
    static MODE: RefCell<Mode> = const { RefCell::new(Mode::Off) };
    /// while > 0 the hook is a no-op on this thread (monitor observations)
    static MUTE: Cell<u32> = const { Cell::new(0) };
    static STEPS: Cell<u64> = const { Cell::new(0) };
    static BUDGET: Cell<u64> = const { Cell::new(u64::MAX) };
    static DELAY_RNG: RefCell<Rng> = RefCell::new(Rng::new(0));
    static DELAY_PROB: Cell<u32> = const { Cell::new(0) };
    static SITES: RefCell<Option<Vec<(Op, u32)>>> = const { RefCell::new(None) };
    /// E2: map events of this free-running thread, stamped with the global E2 clock
    static E2_LOG: RefCell<Option<Vec<Ev>>> = const { RefCell::new(None) };
    /// while > 0, panics on this thread are expected to be caught by a monitor: not printed
    static QUIET: Cell<u32> = const { Cell::new(0) };
}

/// Runs `f` under `catch_unwind` with panic output suppressed (the panic is a monitored event).
pub fn quiet_catch<T>(f: impl FnOnce() -> T) -> std::thread::Result<T> {
    QUIET.with(|c| c.set(c.get() + 1));
    let r = std::panic::catch_unwind(std::panic::AssertUnwindSafe(f));
    QUIET.with(|c| c.set(c.get() - 1));
    r
}

pub fn is_quiet() -> bool {
    QUIET.with(|c| c.get()) > 0
}

pub fn install() {
    // false = already installed by an earlier call; both are fine
    let _ = pricelevel::verif::set_hook(hook_fn);
}

pub fn set_mode(m: Mode) {
    MODE.with(|c| *c.borrow_mut() = m);
}

pub fn mute<T>(f: impl FnOnce() -> T) -> T {
    MUTE.with(|c| c.set(c.get() + 1));
    let r = f();
    MUTE.with(|c| c.set(c.get() - 1));
    r
}

/// Count mode: start counting from zero with the given budget.
pub fn count_begin(budget: u64) {
    STEPS.with(|c| c.set(0));
    BUDGET.with(|c| c.set(budget));
    set_mode(Mode::Count);
}

pub fn count_steps() -> u64 {
    STEPS.with(|c| c.get())
}

pub fn count_reset(budget: u64) {
    STEPS.with(|c| c.set(0));
    BUDGET.with(|c| c.set(budget));
}

pub fn count_end() -> u64 {
    set_mode(Mode::Off);
    STEPS.with(|c| c.get())
}

/// record the (op, line) of every scheduling point seen on this thread (coverage reporting)
pub fn sites_begin() {
    SITES.with(|s| *s.borrow_mut() = Some(Vec::new()));
}

pub fn sites_take() -> Vec<(Op, u32)> {
    SITES.with(|s| s.borrow_mut().take().unwrap_or_default())
}

pub fn delay_begin(seed: u64, prob_per_1024: u32) {
    DELAY_RNG.with(|r| *r.borrow_mut() = Rng::new(seed));
    DELAY_PROB.with(|c| c.set(prob_per_1024));
    STEPS.with(|c| c.set(0));
    BUDGET.with(|c| c.set(FREE_RUN_CALL_BUDGET));
    set_mode(Mode::Delay);
}

fn hook_fn(site: &Site) {
    if MUTE.with(|c| c.get()) > 0 {
        return;
    }
    // take what is needed out of the RefCell first: nothing stays borrowed while blocking
    // or panicking
    enum What {
        Off,
        Count,
        Sched(Arc<Shared>, usize),
        Delay,
    }
    let what = MODE.with(|m| match &*m.borrow() {
        Mode::Off => What::Off,
        Mode::Count => What::Count,
        Mode::Sched(s, i) => What::Sched(s.clone(), *i),
        Mode::Delay => What::Delay,
    });
    match what {
        What::Off => {}
        What::Count => {
            if site.after {
                return;
            }
            SITES.with(|s| {
                if let Some(v) = s.borrow_mut().as_mut() {
                    v.push((site.op, site.loc.line()));
                }
            });
            let n = STEPS.with(|c| {
                let n = c.get() + 1;
                c.set(n);
                n
            });
            if n > BUDGET.with(|c| c.get()) {
                // safe code only, no lock is held at a `before` event
                std::panic::panic_any(OVERRUN_MSG);
            }
        }
        What::Sched(shared, me) => {
            crate::sched::on_hook(&shared, me, site);
        }
        What::Delay => {
            // optional event log (C13 attribution on free-running executions): only map events,
            // stamped before and after the operation with the monitor's global clock
            if matches!(site.op, Op::MapRemove | Op::MapInsert | Op::MapGet) {
                E2_LOG.with(|l| {
                    if let Some(v) = l.borrow_mut().as_mut() {
                        let seq = crate::conc::E2_CLOCK.fetch_add(1, std::sync::atomic::Ordering::SeqCst);
                        v.push(Ev {
                            seq,
                            op: site.op,
                            obj: site.obj,
                            key: site.key,
                            after: site.after,
                            hit: site.hit,
                            line: site.loc.line(),
                            file: site.loc.file(),
                        });
                    }
                });
            }
            if site.after {
                return;
            }
            // free-running threads are bounded too: a call that takes more than its step
            // budget is cut (a verdict of "inconclusive", never a hang of the check)
            let n = STEPS.with(|c| {
                let n = c.get() + 1;
                c.set(n);
                n
            });
            if n > BUDGET.with(|c| c.get()) {
                std::panic::panic_any(OVERRUN_MSG);
            }
            let p = DELAY_PROB.with(|c| c.get());
            if p == 0 {
                return;
            }
            let (go, kind, len) = DELAY_RNG.with(|r| {
                let mut r = r.borrow_mut();
                let x = r.below(1024) as u32;
                (x < p, r.below(4), r.below(400))
            });
            if go {
                if kind == 0 {
                    std::thread::yield_now();
                } else {
                    // spin 0..~50us
                    let t0 = std::time::Instant::now();
                    let d = std::time::Duration::from_nanos(len * 125);
                    while t0.elapsed() < d {
                        std::hint::spin_loop();
                    }
                }
            }
        }
    }
}

// ---------------------------------------------------------------------------------------------
// Breadcrumbs for the crash supervisor: an allocation failure or stack overflow inside the library
// aborts the process and escapes catch_unwind.  In "careful" mode (second attempt after a crash)
// every input is written to a file before it is parsed, so that the supervisor can name it.
// ---------------------------------------------------------------------------------------------

static CAREFUL: std::sync::OnceLock<Option<String>> = std::sync::OnceLock::new();

fn crumb_path() -> &'static Option<String> {
    CAREFUL.get_or_init(|| std::env::var("PLV_CAREFUL").ok())
}

#[inline]
pub fn crumb(entry: &str, input: &str) {
    if let Some(base) = crumb_path() {
        // one file per thread: the last line written is the input being processed
        thread_local! {
            static FILE: RefCell<Option<std::fs::File>> = const { RefCell::new(None) };
        }
        FILE.with(|f| {
            use std::io::{Seek, SeekFrom, Write};
            let mut f = f.borrow_mut();
            if f.is_none() {
                let name = format!("{}.{:?}", base, std::thread::current().id()).replace(['(', ')'], "");
                *f = std::fs::File::create(name).ok();
            }
            if let Some(file) = f.as_mut() {
                let _ = file.seek(SeekFrom::Start(0));
                let _ = file.set_len(0);
                let _ = file.write_all(entry.as_bytes());
                let _ = file.write_all(b"\n");
                let _ = file.write_all(input.as_bytes());
                let _ = file.flush();
            }
        });
    }
}

pub fn e2_log_begin() {
    E2_LOG.with(|l| *l.borrow_mut() = Some(Vec::new()));
}

pub fn e2_log_take() -> Vec<Ev> {
    E2_LOG.with(|l| l.borrow_mut().take().unwrap_or_default())
}
