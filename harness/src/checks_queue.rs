//! C19 — the exported OrderQueue against a reference FIFO with lookup / removal by id.

use crate::checks_seq::budget;
use crate::mon::SIG_K2;
use crate::model::{self, Kind, Order, Params, KINDS};
use crate::report::{ncpu, parallel, Report, Tier};
use crate::rng::{fnv, fnv_mix, Rng};
use pricelevel::{OrderQueue, Side, TimeInForce};
use serde_json::json;
use std::collections::{HashSet, VecDeque};
use std::sync::Arc;

fn mk_order(rng: &mut Rng, idn: u64, ts: u64) -> Order {
    let kind: Kind = KINDS[rng.usize_below(7)];
    let p = Params {
        thr: rng.below(4),
        amt: *rng.pick(&[None, Some(0), Some(5)]),
        auto: rng.chance(1, 2),
        ..Params::default()
    };
    model::mk(
        kind,
        model::oid(idn),
        100,
        rng.below(20),
        if kind.layered() { rng.below(20) } else { 0 },
        if rng.chance(1, 2) { Side::Buy } else { Side::Sell },
        ts,
        *rng.pick(&[TimeInForce::Gtc, TimeInForce::Day, TimeInForce::Gtd(99)]),
        &p,
    )
}

fn sorted(mut v: Vec<Order>) -> Vec<Order> {
    v.sort_by_key(|o| (model::key(&model::id_of(o)), model::ts_of(o)));
    v
}

struct Case {
    log: Vec<String>,
    findings: Vec<String>,
    k2: u64,
    pops: u64,
    pops_after_remove: u64,
    ctor_checks: u64,
}

fn run_case(rng: &mut Rng, clean: bool) -> Case {
    let q = OrderQueue::new();
    // reference FIFO of live orders
    let mut fifo: VecDeque<Order> = VecDeque::new();
    // ticket model: (id, push time)
    let mut tickets: VecDeque<(u128, u64)> = VecDeque::new();
    let mut live_since: std::collections::HashMap<u128, u64> = Default::default();
    let mut removed_ids: Vec<u64> = Vec::new();
    let mut ever_removed: HashSet<u128> = HashSet::new();
    let mut next_id = 1u64;
    let mut clock = 0u64;
    let mut c = Case {
        log: Vec::new(),
        findings: Vec::new(),
        k2: 0,
        pops: 0,
        pops_after_remove: 0,
        ctor_checks: 0,
    };
    // every eighth sequence is long (stale tickets pile up)
    let mut n_ops = if rng.chance(1, 6) { 150 + rng.usize_below(500) } else { 1 + rng.usize_below(60) };
    let mut max_live = 1 + rng.usize_below(8);
    // scale tier: one sequence in 16 first fills the queue with 31-1100 orders (past a 31-slot
    // queue block, past the map's growth steps, past 2^10) and then drives it further
    let wide = rng.chance(1, 16);
    if wide {
        max_live = if rng.chance(1, 8) {
            *rng.pick(&[256usize, 300, 511, 512, 513, 1000, 1023, 1024, 1025, 1100])
        } else {
            *rng.pick(&[31usize, 32, 33, 62, 63, 64, 65, 93, 94, 100, 127, 128, 129, 200])
        };
        n_ops = max_live + 20 + rng.usize_below(max_live + 100);
    }
    for op_index in 0..n_ops {
        clock += 1;
        // long sequences are remove-heavy and pop-poor: stale tickets pile up
        let op = if wide && op_index < max_live {
            0
        } else if wide {
            rng.weighted(&[20, 30, 14, 10, 4, 2, 12, 8])
        } else if n_ops > 100 {
            rng.weighted(&[40, 2, 36, 8, 4, 2, 6, 2])
        } else {
            rng.weighted(&[30, 22, 12, 14, 6, 4, 8, 4])
        };
        match op {
            0 => {
                // push: fresh id, or (unless clean) an id that was removed / popped earlier
                if fifo.len() >= max_live {
                    continue;
                }
                let idn = if !clean && !removed_ids.is_empty() && rng.chance(1, 2) {
                    let i = rng.usize_below(removed_ids.len());
                    removed_ids.swap_remove(i)
                } else {
                    next_id += 1;
                    next_id
                };
                let ts = rng.below(6);
                let o = mk_order(rng, idn, ts);
                let k = model::key(&model::id_of(&o));
                if fifo.iter().any(|x| model::key(&model::id_of(x)) == k) {
                    continue;
                }
                q.push(Arc::new(o));
                fifo.push_back(o);
                tickets.push_back((k, clock));
                live_since.insert(k, clock);
                c.log.push(format!("push {}", model::short(&o)));
            }
            1 | 7 => {
                let got = q.pop().map(|a| *a);
                c.pops += 1;
                if !ever_removed.is_empty() {
                    c.pops_after_remove += 1;
                }
                let want = fifo.front().copied();
                // what the ticket model predicts: tickets of ids that are not queued are discarded,
                // the first ticket of a queued id wins
                let mut pred: Option<(u128, u64)> = None;
                while let Some((k, t)) = tickets.pop_front() {
                    if live_since.contains_key(&k) {
                        pred = Some((k, t));
                        break;
                    }
                }
                c.log.push(format!(
                    "pop -> {}",
                    got.map(|o| model::short(&o)).unwrap_or_else(|| "None".into())
                ));
                let gk = got.map(|o| model::key(&model::id_of(&o)));
                if got != want {
                    let explained = match (gk, pred) {
                        (Some(g), Some((pk, pt))) => {
                            g == pk
                                && ever_removed.contains(&g)
                                && pt < *live_since.get(&g).unwrap_or(&0)
                                && got.map(|o| fifo.contains(&o)).unwrap_or(false)
                        }
                        _ => false,
                    };
                    if explained {
                        c.k2 += 1;
                    } else {
                        c.findings.push(format!(
                            "pop returned {} but the FIFO head is {}",
                            got.map(|o| model::short(&o)).unwrap_or_else(|| "None".into()),
                            want.map(|o| model::short(&o)).unwrap_or_else(|| "None".into())
                        ));
                    }
                }
                // re-synchronise both models on the actual pop
                if let Some((pk, pt)) = pred {
                    if gk != Some(pk) {
                        tickets.push_front((pk, pt));
                    }
                }
                if let Some(g) = got {
                    let k = model::key(&model::id_of(&g));
                    if let Some(p) = fifo.iter().position(|x| *x == g) {
                        fifo.remove(p);
                    } else if c.findings.is_empty() {
                        c.findings.push(format!("pop returned {} which is not queued", model::short(&g)));
                    }
                    live_since.remove(&k);
                    if op == 7 {
                        // pop then re-push (what match_order does with a survivor): joins at the back
                        clock += 1;
                        q.push(Arc::new(g));
                        fifo.push_back(g);
                        tickets.push_back((k, clock));
                        live_since.insert(k, clock);
                        c.log.push(format!("re-push {}", model::short(&g)));
                    } else if let Some(n) = crate::hseq::id_number(k) {
                        removed_ids.push(n);
                    }
                }
            }
            2 => {
                // remove by id: present or absent
                let k_order = if !fifo.is_empty() && rng.chance(3, 4) {
                    Some(fifo[rng.usize_below(fifo.len())])
                } else {
                    None
                };
                let id = k_order.map(|o| model::id_of(&o)).unwrap_or_else(|| model::oid(900_000 + rng.below(50)));
                let k = model::key(&id);
                let got = q.remove(id).map(|a| *a);
                c.log.push(format!("remove {:x} -> {}", k >> 64, got.is_some()));
                if got != k_order {
                    c.findings.push(format!(
                        "remove returned {:?}, queued order was {:?}",
                        got.map(|o| model::short(&o)),
                        k_order.map(|o| model::short(&o))
                    ));
                }
                if let Some(o) = k_order {
                    fifo.retain(|x| *x != o);
                    live_since.remove(&k);
                    ever_removed.insert(k);
                    if let Some(n) = crate::hseq::id_number(k) {
                        removed_ids.push(n);
                    }
                }
            }
            3 => {
                let k_order = if !fifo.is_empty() && rng.chance(3, 4) {
                    Some(fifo[rng.usize_below(fifo.len())])
                } else {
                    None
                };
                let id = k_order.map(|o| model::id_of(&o)).unwrap_or_else(|| {
                    if !removed_ids.is_empty() && rng.chance(1, 2) {
                        model::oid(*rng.pick(&removed_ids))
                    } else {
                        model::oid(900_000 + rng.below(50))
                    }
                });
                let expect = fifo.iter().find(|x| model::id_of(x) == id).copied();
                let got = q.find(id).map(|a| *a);
                if got != expect {
                    c.findings.push(format!(
                        "find returned {:?}, expected {:?}",
                        got.map(|o| model::short(&o)),
                        expect.map(|o| model::short(&o))
                    ));
                }
            }
            4 => {
                if q.len() != fifo.len() {
                    c.findings.push(format!("len {} != {} queued orders", q.len(), fifo.len()));
                }
            }
            5 => {
                if q.is_empty() != fifo.is_empty() {
                    c.findings.push(format!("is_empty {} with {} queued orders", q.is_empty(), fifo.len()));
                }
            }
            6 => {
                let got: Vec<Order> = q.to_vec().iter().map(|a| **a).collect();
                if sorted(got.clone()) != sorted(fifo.iter().copied().collect()) {
                    c.findings.push(format!(
                        "to_vec lists [{}] but queued are [{}]",
                        got.iter().map(model::short).collect::<Vec<_>>().join(" "),
                        fifo.iter().map(model::short).collect::<Vec<_>>().join(" ")
                    ));
                }
            }
            _ => {}
        }
        if !c.findings.is_empty() {
            return c;
        }
    }
    // constructors: same orders; list constructors pop in list order
    let list: Vec<Order> = fifo.iter().copied().collect();
    let arcs: Vec<Arc<Order>> = list.iter().map(|o| Arc::new(*o)).collect();
    let check_set = |what: &str, qq: &OrderQueue, c: &mut Case| {
        c.ctor_checks += 1;
        let got: Vec<Order> = qq.to_vec().iter().map(|a| **a).collect();
        if sorted(got) != sorted(list.clone()) || qq.len() != list.len() {
            c.findings.push(format!("{}: the built queue does not hold the same orders", what));
        }
    };
    let drain = |qq: &OrderQueue| -> Vec<Order> {
        let mut v = Vec::new();
        while let Some(a) = qq.pop() {
            v.push(*a);
            if v.len() > list.len() + 1000 {
                break;
            }
        }
        v
    };
    let q1 = OrderQueue::from_vec(arcs.clone());
    check_set("from_vec", &q1, &mut c);
    if drain(&q1) != list {
        c.findings.push("from_vec: pops are not in list order".into());
    }
    let q2 = OrderQueue::from(arcs.clone());
    check_set("From<Vec>", &q2, &mut c);
    if drain(&q2) != list {
        c.findings.push("From<Vec>: pops are not in list order".into());
    }
    let text = q.to_string();
    match text.parse::<OrderQueue>() {
        Ok(q3) => check_set("FromStr(Display)", &q3, &mut c),
        Err(e) => c.findings.push(format!("FromStr(Display) failed: {} on {}", e, text)),
    }
    match serde_json::to_string(&q) {
        Ok(j) => match serde_json::from_str::<OrderQueue>(&j) {
            Ok(q4) => check_set("serde", &q4, &mut c),
            Err(e) => c.findings.push(format!("serde deserialize failed: {}", e)),
        },
        Err(e) => c.findings.push(format!("serde serialize failed: {}", e)),
    }
    // final drain of the queue itself: every queued order comes out exactly once
    let rest = drain(&q);
    if sorted(rest.clone()) != sorted(list.clone()) {
        c.findings.push(format!(
            "final drain returned [{}] but [{}] were queued",
            rest.iter().map(model::short).collect::<Vec<_>>().join(" "),
            list.iter().map(model::short).collect::<Vec<_>>().join(" ")
        ));
    }
    c
}

pub fn run(tier: Tier, seed: u64) -> i32 {
    let mut rep = Report::new("C19", tier, seed, "exploration");
    let n = budget(tier, 100_000, 20_000_000);
    let nw = ncpu();
    parallel(nw, &mut rep, |w| {
        let mut part = Report::new("C19", tier, seed, "exploration");
        let mut i = w as u64;
        while i < n {
            let mut rng = Rng::derive(seed ^ 0xc19, i);
            let clean = i % 3 == 0;
            let c = run_case(&mut rng, clean);
            part.evaluations += 1;
            part.add("pops_compared_with_reference", c.pops);
            part.add("pops_after_a_removal_by_id", c.pops_after_remove);
            part.add("constructor_checks", c.ctor_checks);
            part.maxset("max_calls_in_one_sequence", c.log.len() as u64);
            if c.log.len() > 100 && c.log.iter().take(31).all(|l| l.starts_with("push")) {
                part.add("wide_sequences(31-1100 orders queued at once)", 1);
            }
            part.add(if clean { "clean_sequences(no re-push after remove)" } else { "sequences_with_re_push" }, 1);
            if c.k2 > 0 {
                part.known(SIG_K2, c.k2);
                if clean {
                    part.violation(
                        format!("[case {}] stale-ticket pop in a sequence that never re-pushes a removed id", i),
                        json!({"engine": "queue", "case": i, "seed": seed, "calls": c.log}),
                    );
                }
            }
            if c.pops_after_remove > 0 && c.pops >= 2 {
                let mut h = fnv(b"q");
                for l in &c.log {
                    h = fnv_mix(h, fnv(l.as_bytes()));
                }
                part.distinct.insert(h);
            }
            if i < 2 {
                part.sample(json!({"case": i, "clean": clean, "calls": c.log}));
            }
            for f in c.findings.iter().take(2) {
                part.violation(
                    format!("[case {}] {}", i, f),
                    json!({"engine": "queue", "property": "C19", "case": i, "seed": seed, "clean": clean, "calls": c.log, "finding": f}),
                );
            }
            i += nw as u64;
        }
        part
    });
    rep.rule = "seeded random call sequences (1-60 calls, 1-8 live ids; every sixth 150-650 calls; every sixteenth first queues 31-1100 orders) of push / pop / find / remove / len / is_empty / to_vec / pop-then-re-push directly on OrderQueue, in lock-step with a reference FIFO (VecDeque of live orders; remove deletes; re-push joins at the back); then from_vec / From<Vec> / FromStr(Display) / serde built from the final content. A disagreeing pop is attributed to K2 only if the popped id was removed by id earlier, was pushed again, and the stale-ticket model predicts exactly that pop; every third sequence never re-pushes a removed id (no room for K2). non-trivial = sequence with >= 2 pops of which at least one follows a removal by id; distinct = distinct call logs".into();
    rep.assumptions.push("an id is never pushed while it is queued".into());
    rep.finish()
}
