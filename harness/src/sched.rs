//! E1 — controlled-schedule executor ("baton scheduler").
//!
//! Real OS threads run the real pricelevel code.  The hook makes each of them stop *before*
//! every shared-memory operation and wait for the baton; exactly one thread runs at a time and a
//! seeded strategy decides who goes next.  Between two grants the world is stopped, so the
//! scheduler thread can inspect the level after every single shared-memory step.

use crate::hook::{self, Ev, Mode, OVERRUN_MSG};
use crate::rng::{fnv_mix, Rng};
use pricelevel::verif::{Op, Site};
use std::collections::HashSet;
use std::sync::{Arc, Condvar, Mutex};
use std::time::{Duration, Instant};

static WATCHDOGS: std::sync::atomic::AtomicU32 = std::sync::atomic::AtomicU32::new(0);

/// a granted worker that makes no progress for this long is presumed blocked on a lock
const BLOCK_MS: u64 = 100;

#[derive(Clone, Copy, Debug)]
pub struct PSite {
    pub op: Op,
    pub obj: usize,
    pub key: u128,
    pub line: u32,
    pub file: &'static str,
}

pub struct State {
    /// worker i has been given the baton and has not parked since
    granted: Vec<bool>,
    /// the worker the scheduler is waiting for (None = nobody: the world is stopped)
    running: Option<usize>,
    /// worker i was granted, made no progress for BLOCK_MS and is presumed to wait for a lock that
    /// a parked worker holds; it is skipped until it shows up at its next scheduling point
    blocked: Vec<bool>,
    pending: Vec<Option<PSite>>,
    done: Vec<bool>,
    abort: bool,
    pub seq: u64,
    pub events: Vec<Vec<Ev>>,
    pub log_events: bool,
}

pub struct Shared {
    m: Mutex<State>,
    cv: Condvar,
}

/// Handle a worker body uses to talk to the executor.
pub struct Worker {
    shared: Arc<Shared>,
    pub idx: usize,
}

impl Worker {
    /// next value of the global event sequence; the caller holds the baton, so this totally
    /// orders all client-boundary events of one execution
    pub fn stamp(&self) -> u64 {
        let mut st = self.shared.m.lock().unwrap();
        st.seq += 1;
        st.seq
    }
}

#[derive(Clone, Debug)]
pub enum Strategy {
    /// uniform random walk over the runnable threads
    Rw,
    /// PCT-style: random priorities, `depth` priority-change points within ~`est_len` steps
    Pct { depth: u32, est_len: u32 },
    /// non-preemptive in index order, except: `victim` is held at its `at`-th scheduling point
    /// while the others run for `len` steps (or to completion), then resumes
    Delay { victim: usize, at: u32, len: u32 },
    /// starvation: before every step of `victim`, the other threads get `burst` steps (as long as
    /// any of them can run) - the victim keeps losing races (retry loops, compare-exchange)
    Starve { victim: usize, burst: u32 },
    /// follow the given thread choices step by step; afterwards continue non-preemptively
    /// (keep the running thread while it is runnable, else the lowest-index runnable one)
    Script { choices: Vec<u8> },
}

impl Strategy {
    pub fn describe(&self) -> String {
        match self {
            Strategy::Rw => "rw".into(),
            Strategy::Pct { depth, est_len } => format!("pct(d={},n={})", depth, est_len),
            Strategy::Delay { victim, at, len } => format!("delay(t={},k={},m={})", victim, at, len),
            Strategy::Starve { victim, burst } => format!("starve(t={},b={})", victim, burst),
            Strategy::Script { choices } => format!("script({})", choices.iter().map(|c| c.to_string()).collect::<Vec<_>>().join("")),
        }
    }
}

struct Chooser {
    strat: Strategy,
    rng: Rng,
    prio: Vec<i64>,
    change: Vec<u64>,
    grants: Vec<u32>,
    held_steps: u32,
    released: bool,
    low: i64,
}

impl Chooser {
    fn new(strat: Strategy, n: usize, seed: u64) -> Self {
        let mut rng = Rng::new(seed);
        let mut prio: Vec<i64> = (0..n as i64).map(|i| i + 10).collect();
        rng.shuffle(&mut prio);
        let mut change = Vec::new();
        if let Strategy::Pct { depth, est_len } = &strat {
            for _ in 0..*depth {
                change.push(rng.range(1, (*est_len).max(2) as u64));
            }
        }
        Chooser {
            strat,
            rng,
            prio,
            change,
            grants: vec![0; n],
            held_steps: 0,
            released: false,
            low: 0,
        }
    }

    fn choose(&mut self, runnable: &[usize], step: u64, last: Option<usize>) -> usize {
        let w = match &self.strat {
            Strategy::Rw => runnable[self.rng.usize_below(runnable.len())],
            Strategy::Pct { .. } => {
                if self.change.contains(&step) {
                    if let Some(l) = last {
                        self.low -= 1;
                        self.prio[l] = self.low;
                    }
                }
                *runnable.iter().max_by_key(|w| self.prio[**w]).unwrap()
            }
            Strategy::Starve { victim, burst } => {
                let v = *victim;
                let others: Vec<usize> = runnable.iter().copied().filter(|w| *w != v).collect();
                if !runnable.contains(&v) {
                    others[self.rng.usize_below(others.len())]
                } else if others.is_empty() || self.held_steps >= *burst {
                    self.held_steps = 0;
                    v
                } else {
                    self.held_steps += 1;
                    // let the others take turns completing their calls
                    others[(self.held_steps as usize) % others.len()]
                }
            }
            Strategy::Script { choices } => {
                let i = (step - 1) as usize;
                match choices.get(i) {
                    Some(c) if runnable.contains(&(*c as usize)) => *c as usize,
                    _ => match last {
                        Some(l) if runnable.contains(&l) => l,
                        _ => runnable[0],
                    },
                }
            }
            Strategy::Delay { victim, at, len } => {
                let v = *victim;
                let others: Vec<usize> = runnable.iter().copied().filter(|w| *w != v).collect();
                let v_runnable = runnable.contains(&v);
                if !v_runnable {
                    others[0]
                } else if self.released || self.grants[v] < *at {
                    // before the delay point (run the victim up to it) and after release
                    v
                } else if others.is_empty() || self.held_steps >= *len {
                    self.released = true;
                    v
                } else {
                    self.held_steps += 1;
                    others[0]
                }
            }
        };
        self.grants[w] += 1;
        w
    }
}

#[derive(Debug, Clone, PartialEq, Eq)]
pub enum Verdict {
    Completed,
    /// the step budget was exceeded (a call did not return within the bound)
    Overrun,
    /// wall-clock watchdog fired: inconclusive, never a violation
    Watchdog,
}

pub struct ExecResult {
    pub verdict: Verdict,
    pub steps: u64,
    pub trace_hash: u64,
    /// (thread, op, line) of every granted step
    pub trace: Vec<(u8, Op, u32)>,
    /// bit mask of the runnable threads at every granted step (same index as `trace`)
    pub runnable: Vec<u8>,
    /// how often a granted worker was presumed blocked on a lock (see BLOCK_MS)
    pub blocked_events: u64,
    pub switch_pairs: HashSet<(Op, u32, Op, u32)>,
    pub sites: HashSet<(Op, u32)>,
    pub site_files: std::collections::HashMap<(Op, u32), &'static str>,
    pub events: Vec<Vec<Ev>>,
    /// panics other than the budget overrun, per worker
    pub panics: Vec<Option<String>>,
}

/// Information handed to the stop-the-world inspector after every granted step.
pub struct Inspect {
    pub step: u64,
    pub worker: usize,
    pub site: PSite,
}

pub type Body<'a> = Box<dyn FnOnce(&Worker) + Send + 'a>;

/// Called from the hook on a worker thread.
pub fn on_hook(shared: &Arc<Shared>, me: usize, site: &Site) {
    let mut st = shared.m.lock().unwrap();
    if site.after {
        if st.log_events {
            st.seq += 1;
            let seq = st.seq;
            st.events[me].push(Ev {
                seq,
                op: site.op,
                obj: site.obj,
                key: site.key,
                after: true,
                hit: site.hit,
                line: site.loc.line(),
                file: site.loc.file(),
            });
        }
        return;
    }
    st.pending[me] = Some(PSite {
        op: site.op,
        obj: site.obj,
        key: site.key,
        line: site.loc.line(),
        file: site.loc.file(),
    });
    st.granted[me] = false;
    st.blocked[me] = false;
    if st.running == Some(me) {
        st.running = None;
    }
    shared.cv.notify_all();
    while !st.granted[me] && !st.abort {
        st = shared.cv.wait(st).unwrap();
    }
    if st.abort && !st.granted[me] {
        drop(st);
        std::panic::panic_any(OVERRUN_MSG);
    }
    st.pending[me] = None;
    if st.log_events {
        st.seq += 1;
        let seq = st.seq;
        st.events[me].push(Ev {
            seq,
            op: site.op,
            obj: site.obj,
            key: site.key,
            after: false,
            hit: false,
            line: site.loc.line(),
            file: site.loc.file(),
        });
    }
}

pub fn panic_message(p: &(dyn std::any::Any + Send)) -> String {
    if let Some(s) = p.downcast_ref::<&str>() {
        s.to_string()
    } else if let Some(s) = p.downcast_ref::<String>() {
        s.clone()
    } else {
        "<non-string panic>".into()
    }
}

/// Runs `bodies` as threads under the baton scheduler.
pub fn run_exec(
    bodies: Vec<Body<'_>>,
    strat: Strategy,
    seed: u64,
    budget: u64,
    log_events: bool,
    inspect: &mut dyn FnMut(&Inspect),
) -> ExecResult {
    hook::install();
    let n = bodies.len();
    // after a few watchdog firings (a lock held across a scheduling point deadlocks the baton
    // protocol) nothing more is scheduled: the rest of the run is inconclusive, not hours long
    if WATCHDOGS.load(std::sync::atomic::Ordering::Relaxed) >= 3 {
        return ExecResult {
            verdict: Verdict::Watchdog,
            steps: 0,
            trace_hash: 0,
            trace: Vec::new(),
            runnable: Vec::new(),
            blocked_events: 0,
            switch_pairs: HashSet::new(),
            sites: HashSet::new(),
            site_files: Default::default(),
            events: vec![Vec::new(); n],
            panics: vec![None; n],
        };
    }
    let shared = Arc::new(Shared {
        m: Mutex::new(State {
            granted: vec![false; n],
            running: None,
            blocked: vec![false; n],
            pending: vec![None; n],
            done: vec![false; n],
            abort: false,
            seq: 0,
            events: vec![Vec::new(); n],
            log_events,
        }),
        cv: Condvar::new(),
    });
    let mut chooser = Chooser::new(strat, n, seed);
    let mut res = ExecResult {
        verdict: Verdict::Completed,
        steps: 0,
        trace_hash: 0xcbf2_9ce4_8422_2325,
        trace: Vec::new(),
        runnable: Vec::new(),
        blocked_events: 0,
        switch_pairs: HashSet::new(),
        sites: HashSet::new(),
        site_files: Default::default(),
        events: Vec::new(),
        panics: vec![None; n],
    };
    let panics: Arc<Mutex<Vec<Option<String>>>> = Arc::new(Mutex::new(vec![None; n]));

    std::thread::scope(|scope| {
        for (i, body) in bodies.into_iter().enumerate() {
            let shared = shared.clone();
            let panics = panics.clone();
            scope.spawn(move || {
                // initial park: behaves like a scheduling point with a pseudo site
                {
                    let mut st = shared.m.lock().unwrap();
                    st.pending[i] = Some(PSite {
                        op: Op::AtomicLoad,
                        obj: 0,
                        key: 0,
                        line: 0,
                        file: "<start>",
                    });
                    shared.cv.notify_all();
                    while !st.granted[i] && !st.abort {
                        st = shared.cv.wait(st).unwrap();
                    }
                    st.pending[i] = None;
                    if st.abort && !st.granted[i] {
                        st.done[i] = true;
                        shared.cv.notify_all();
                        return;
                    }
                }
                hook::set_mode(Mode::Sched(shared.clone(), i));
                let w = Worker {
                    shared: shared.clone(),
                    idx: i,
                };
                let r = hook::quiet_catch(|| body(&w));
                hook::set_mode(Mode::Off);
                if let Err(p) = r {
                    let msg = panic_message(&*p);
                    if msg != OVERRUN_MSG {
                        panics.lock().unwrap()[i] = Some(msg);
                    }
                }
                let mut st = shared.m.lock().unwrap();
                st.done[i] = true;
                st.pending[i] = None;
                st.granted[i] = false;
                st.blocked[i] = false;
                if st.running == Some(i) {
                    st.running = None;
                }
                shared.cv.notify_all();
            });
        }

        // scheduler loop
        let mut last: Option<usize> = None;
        let mut last_pending_of: Vec<Option<PSite>> = vec![None; n];
        let deadline = Instant::now() + Duration::from_secs(20);
        loop {
            let mut st = shared.m.lock().unwrap();
            // quiescent = nobody is running and every live worker is parked (or presumed blocked
            // on a lock held by a parked worker)
            let wait_start = Instant::now();
            loop {
                let quiet = st.running.is_none()
                    && (0..n).all(|i| st.done[i] || st.pending[i].is_some() || st.blocked[i]);
                if quiet {
                    break;
                }
                let now = Instant::now();
                if let Some(r) = st.running {
                    // no progress for a while and somebody else could be holding what it waits
                    // for: presume it blocked and go on with the parked workers
                    let others_parked = (0..n).any(|i| i != r && !st.done[i] && st.pending[i].is_some());
                    if others_parked && now.duration_since(wait_start) > Duration::from_millis(BLOCK_MS) {
                        st.blocked[r] = true;
                        st.running = None;
                        res.blocked_events += 1;
                        continue;
                    }
                }
                if now >= deadline {
                    WATCHDOGS.fetch_add(1, std::sync::atomic::Ordering::Relaxed);
                    res.verdict = Verdict::Watchdog;
                    st.abort = true;
                    shared.cv.notify_all();
                    break;
                }
                let (g, _) = shared.cv.wait_timeout(st, Duration::from_millis(BLOCK_MS / 2 + 1)).unwrap();
                st = g;
            }
            if res.verdict == Verdict::Watchdog {
                drop(st);
                break;
            }
            // stop-the-world inspection of the step that has just been executed
            if let Some(w) = last {
                if let Some(site) = last_pending_of[w] {
                    let info = Inspect {
                        step: res.steps,
                        worker: w,
                        site,
                    };
                    drop(st);
                    inspect(&info);
                    st = shared.m.lock().unwrap();
                }
            }
            let runnable: Vec<usize> = (0..n)
                .filter(|i| !st.done[*i] && st.pending[*i].is_some())
                .collect();
            if runnable.is_empty() {
                if (0..n).all(|i| st.done[i]) {
                    break;
                }
                // only presumed-blocked workers are left: they are running, wait for them
                if Instant::now() >= deadline {
                    WATCHDOGS.fetch_add(1, std::sync::atomic::Ordering::Relaxed);
                    res.verdict = Verdict::Watchdog;
                    st.abort = true;
                    shared.cv.notify_all();
                    drop(st);
                    break;
                }
                let (g, _) = shared.cv.wait_timeout(st, Duration::from_millis(5)).unwrap();
                drop(g);
                last = None;
                continue;
            }
            if res.steps >= budget {
                res.verdict = Verdict::Overrun;
                st.abort = true;
                shared.cv.notify_all();
                drop(st);
                break;
            }
            let w = chooser.choose(&runnable, res.steps + 1, last);
            let site = st.pending[w].unwrap();
            res.steps += 1;
            res.trace_hash = fnv_mix(res.trace_hash, ((w as u64) << 48) ^ ((site.op as u64) << 32) ^ site.line as u64);
            if res.trace.len() < 4096 {
                res.trace.push((w as u8, site.op, site.line));
                res.runnable.push(runnable.iter().fold(0u8, |m, t| m | (1 << *t)));
            }
            res.sites.insert((site.op, site.line));
            res.site_files.entry((site.op, site.line)).or_insert(site.file);
            if let Some(l) = last {
                if l != w {
                    if let Some(ps) = st.pending[l] {
                        res.switch_pairs.insert((ps.op, ps.line, site.op, site.line));
                    }
                }
            }
            last_pending_of[w] = Some(site);
            last = Some(w);
            st.granted[w] = true;
            st.running = Some(w);
            shared.cv.notify_all();
        }
        // make sure every worker gets out (abort path): wait until all are done
        let mut st = shared.m.lock().unwrap();
        let t0 = Instant::now();
        while !(0..n).all(|i| st.done[i]) {
            if res.verdict == Verdict::Completed {
                break;
            }
            st.abort = true;
            shared.cv.notify_all();
            let (g, _) = shared.cv.wait_timeout(st, Duration::from_millis(50)).unwrap();
            st = g;
            if t0.elapsed() > Duration::from_secs(30) {
                break;
            }
        }
    });
    let mut st = shared.m.lock().unwrap();
    res.events = std::mem::take(&mut st.events);
    res.panics = panics.lock().unwrap().clone();
    res
}
