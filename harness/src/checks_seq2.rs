//! C07 (update contract + twin-level purity), C10 (round-trips, derived aggregates),
//! C11 (restored level trades like the original).

use crate::checks_seq::{modes_general, SeqCheck};
use crate::hseq::{self, GenCfg, HOp, HRes, Sut, Trace, TsMode, N_READS, ROUTE_NAMES};
use crate::model::{self, Order};
use crate::mon::{self, Finding};
use crate::obs::{observe, Obs};
use crate::report::Report;
use crate::rng::Rng;
use crate::sim::Sim;
use pricelevel::verif::PriceLevelSnapshotPackage;
use pricelevel::{MatchResult, PriceLevel, PriceLevelData, PriceLevelSnapshot};
use sha2::{Digest, Sha256};

fn fd(at: usize, what: String) -> Finding {
    Finding { at, what }
}

// ---------------------------------------------------------------------------------------------
// C07
// ---------------------------------------------------------------------------------------------

fn mr_sig(m: &MatchResult) -> String {
    // everything except the wall-clock timestamp of the transactions
    let txs: Vec<String> = m
        .transactions
        .as_vec()
        .iter()
        .map(|t| {
            format!(
                "{}|{}|{}|{}|{}|{:?}",
                t.transaction_id, t.taker_order_id, t.maker_order_id, t.price, t.quantity, t.taker_side
            )
        })
        .collect();
    format!(
        "{} rem={} complete={} filled={:?} txs={:?}",
        m.order_id,
        m.remaining_quantity,
        m.is_complete,
        m.filled_order_ids.iter().map(|i| i.to_string()).collect::<Vec<_>>(),
        txs
    )
}

fn res_sig(r: &HRes) -> String {
    match r {
        HRes::Added(o) => format!("added {}", o),
        HRes::Matched(m) => mr_sig(m),
        HRes::Updated(Ok(Some(o))) => format!("updated {}", o),
        HRes::Updated(Ok(None)) => "not-found".into(),
        HRes::Updated(Err(e)) => format!("err {}", e),
        HRes::Read => "read".into(),
        HRes::Rebuilt(r) => format!("rebuilt {:?}", r),
        HRes::Panicked(m) => format!("panic {}", m),
        HRes::Overrun => "overrun".into(),
    }
}

fn obs_equal(a: &Obs, b: &Obs) -> bool {
    a.canon() == b.canon()
        && a.vis == b.vis
        && a.hid == b.hid
        && a.count == b.count
        && a.total == b.total
        && a.stats == b.stats
        && a.snap == b.snap
}

pub fn modes_update() -> Vec<GenCfg> {
    let mut v = Vec::new();
    let mut a = GenCfg::base("update-heavy");
    a.op_w = [22, 25, 10, 14, 8, 8, 8, 5, 0];
    v.push(a);
    let mut b = GenCfg::base("update-after-fills");
    b.max_resting = 4;
    b.op_w = [15, 40, 8, 14, 7, 7, 6, 3, 0];
    b.len = (10, 60);
    v.push(b);
    let mut c = GenCfg::base("layered-updates");
    c.kind_w = [1, 5, 1, 0, 0, 0, 5];
    c.op_w = [20, 35, 8, 14, 8, 8, 5, 2, 0];
    c.qmax = 12;
    v.push(c);
    let mut d = GenCfg::base("absent-ids-and-same-price");
    d.absent_pct = 45;
    d.same_price_pct = 50;
    d.op_w = [20, 20, 12, 12, 12, 12, 12, 0, 0];
    v.push(d);
    let mut e = GenCfg::base("with-rebuilds");
    e.op_w = [22, 25, 8, 12, 6, 6, 6, 5, 10];
    v.push(e);
    let mut h = GenCfg::base("cancel-churn-non-monotone-ts");
    h.ts = TsMode::NonMonotone;
    h.len = (80, 260);
    h.max_resting = 6;
    h.op_w = [36, 10, 30, 6, 3, 3, 6, 6, 0];
    v.push(h);
    let mut hb = GenCfg::base("cancel-burst-with-reads");
    hb.ts = TsMode::NonMonotone;
    hb.len = (160, 400);
    hb.max_resting = 5;
    hb.absent_pct = 3;
    hb.op_w = [44, 2, 42, 2, 0, 0, 5, 5, 0];
    v.push(hb);
    let mut g = GenCfg::base("non-amendable-types");
    g.kind_w = [0, 0, 0, 3, 3, 3, 3];
    g.op_w = [22, 28, 8, 18, 8, 8, 6, 2, 0];
    v.push(g);
    // boundary magnitudes: a few orders of 2^32 .. 2^63 units, amended up and down
    let mut big = GenCfg::base("big");
    big.big = true;
    big.max_resting = 3;
    big.len = (4, 24);
    big.op_w = [22, 20, 8, 30, 8, 6, 4, 2, 0];
    v.push(big);
    v
}

pub fn c07() -> SeqCheck {
    SeqCheck {
        prop: "C07",
        cfgs: modes_update(),
        judge: |tr, part| {
            let mut fds = mon::update_contract(tr);
            let mut upd_on_touched = false;
            let mut touched: std::collections::HashSet<u128> = Default::default();
            for r in &tr.recs {
                match (&r.op, &r.res) {
                    (HOp::Match { .. }, HRes::Matched(m)) => {
                        for t in m.transactions.as_vec() {
                            touched.insert(model::key(&t.maker_order_id));
                        }
                    }
                    (HOp::Update(_), HRes::Updated(Ok(Some(x)))) => {
                        part.add("updates_that_found_their_order", 1);
                        if touched.contains(&model::key(&model::id_of(x))) {
                            upd_on_touched = true;
                            part.add("updates_on_partially_filled_or_replenished_orders", 1);
                        }
                    }
                    (HOp::Update(_), HRes::Updated(Ok(None))) => part.add("updates_on_unknown_ids", 1),
                    (HOp::Update(_), HRes::Updated(Err(_))) => part.add("updates_rejected", 1),
                    _ => {}
                }
            }
            // twin-level differential: B additionally receives read-only calls
            if !tr.aborted {
                let ops = tr.ops();
                let mut rng = Rng::new(tr.hash() ^ 0x7717);
                let mut reads = 0u64;
                let trb = hseq::replay(tr.price, tr.ns, &ops, &mut |_, level: &PriceLevel| {
                    let n = rng.below(4);
                    for _ in 0..n {
                        hseq::do_read(level, rng.below(N_READS as u64) as u8);
                        reads += 1;
                    }
                });
                part.add("read_only_calls_injected_on_twin", reads);
                if !obs_equal(&tr.initial, &trb.initial) {
                    fds.push(fd(0, "twin levels differ before any operation".into()));
                }
                for (i, (a, b)) in tr.recs.iter().zip(trb.recs.iter()).enumerate() {
                    let (sa, sb) = (res_sig(&a.res), res_sig(&b.res));
                    if sa != sb {
                        fds.push(fd(
                            i,
                            format!(
                                "purity: {} returned [{}] on the plain twin but [{}] on the twin that was also read",
                                a.op.describe(),
                                sa,
                                sb
                            ),
                        ));
                        break;
                    }
                    if !obs_equal(&a.after, &b.after) {
                        fds.push(fd(
                            i,
                            format!(
                                "purity: after {} the twins differ: plain vis/hid/count {}/{}/{} stats {:?}; read twin {}/{}/{} stats {:?}",
                                a.op.describe(),
                                a.after.vis,
                                a.after.hid,
                                a.after.count,
                                a.after.stats,
                                b.after.vis,
                                b.after.hid,
                                b.after.count,
                                b.after.stats
                            ),
                        ));
                        break;
                    }
                }
                if trb.recs.len() != tr.recs.len() {
                    fds.push(fd(trb.recs.len(), "purity: the read twin's history was cut short".into()));
                }
                // the blind twin: no read-only call at all (not even the monitor's observations)
                // between the operations; every result and the final state must agree with the
                // observed run, whose only difference is that it was listed / snapshotted after
                // every operation
                let (blind, fin) = hseq::replay_blind(tr.price, tr.ns, &ops);
                part.add("blind_twin_runs", 1);
                for (i, (a, b)) in tr.recs.iter().zip(blind.iter()).enumerate() {
                    if matches!(a.op, HOp::Read(_) | HOp::Rebuild(_)) {
                        continue;
                    }
                    let (sa, sb) = (res_sig(&a.res), res_sig(b));
                    if sa != sb {
                        fds.push(fd(
                            i,
                            format!(
                                "purity: {} returned [{}] on the level that is listed / snapshotted after every operation but [{}] on a level that received no read-only call",
                                a.op.describe(),
                                sa,
                                sb
                            ),
                        ));
                        break;
                    }
                }
                if let Some(last) = tr.recs.last() {
                    if blind.len() == tr.recs.len() && !obs_equal(&last.after, &fin) {
                        fds.push(fd(
                            tr.recs.len(),
                            "purity: the final state differs between the level that was read after every operation and the one that was never read".into(),
                        ));
                    }
                }
            }
            (fds, upd_on_touched)
        },
    }
}

// ---------------------------------------------------------------------------------------------
// C10
// ---------------------------------------------------------------------------------------------

fn hex_sha256(bytes: &[u8]) -> String {
    let mut h = Sha256::new();
    h.update(bytes);
    format!("{:x}", h.finalize())
}

fn listing_ok(o: &Obs) -> Result<(), String> {
    for w in o.orders.windows(2) {
        if model::ts_of(&w[0]) > model::ts_of(&w[1]) {
            return Err("listing not in non-decreasing timestamp order".into());
        }
    }
    Ok(())
}

fn same_content(what: &str, orig: &Obs, price: u64, rebuilt: &PriceLevel) -> Result<(), String> {
    let o = observe(rebuilt);
    if rebuilt.price() != price {
        return Err(format!("{}: price {} != {}", what, rebuilt.price(), price));
    }
    if o.canon() != orig.canon() {
        return Err(format!(
            "{}: orders differ: [{}] vs original [{}]",
            what,
            o.canon().iter().map(model::short).collect::<Vec<_>>().join(" "),
            orig.canon().iter().map(model::short).collect::<Vec<_>>().join(" ")
        ));
    }
    if (o.vis, o.hid, o.count) != (orig.vis, orig.hid, orig.count) {
        return Err(format!(
            "{}: aggregates {}/{}/{} != original {}/{}/{}",
            what, o.vis, o.hid, o.count, orig.vis, orig.hid, orig.count
        ));
    }
    mon::obs_consistent(&o).map_err(|e| format!("{}: {}", what, e))?;
    listing_ok(&o).map_err(|e| format!("{}: {}", what, e))
}

/// all seven rebuild routes on the level's own external forms
pub fn roundtrips(level: &PriceLevel, counters: &mut [u64; 7]) -> Vec<String> {
    let mut out = Vec::new();
    let orig = observe(level);
    if let Err(e) = listing_ok(&orig) {
        out.push(e);
    }
    if let Err(e) = mon::obs_consistent(&orig) {
        out.push(format!(
            "level before round-trip: {} (listing: {})",
            e,
            orig.orders.iter().map(model::short).collect::<Vec<_>>().join(" ")
        ));
    }
    for route in 0..hseq::N_ROUTES {
        counters[route as usize] += 1;
        let r = crate::hook::quiet_catch(|| hseq::rebuild(level, route));
        match r {
            Err(p) => out.push(format!(
                "round-trip via {} panicked: {}",
                ROUTE_NAMES[route as usize],
                crate::sched::panic_message(&*p)
            )),
            Ok(Err(e)) => out.push(format!("round-trip via {} failed: {}", ROUTE_NAMES[route as usize], e)),
            Ok(Ok(l)) => {
                if let Err(e) = same_content(ROUTE_NAMES[route as usize], &orig, level.price(), &l) {
                    out.push(e);
                }
            }
        }
    }
    out
}

/// externally supplied data whose aggregate fields disagree with its orders
pub fn adversarial(level: &PriceLevel, rng: &mut Rng, n_checked: &mut u64) -> Vec<String> {
    let mut out = Vec::new();
    let orig = observe(level);
    let price = level.price();
    let lies: [(u64, u64, usize); 5] = [
        (0, 0, 0),
        (u64::MAX, u64::MAX, usize::MAX),
        (orig.vis.wrapping_add(1), orig.hid.wrapping_add(1), orig.count.wrapping_add(1)),
        (orig.vis.wrapping_sub(1), orig.hid, orig.count),
        (rng.next_u64(), rng.next_u64() >> 8, rng.below(1000) as usize),
    ];
    let (lv, lh, lc) = lies[rng.usize_below(lies.len())];
    let mut check = |what: &str, r: Result<PriceLevel, String>| {
        *n_checked += 1;
        match r {
            Err(e) => out.push(format!("{} with lying aggregates was refused: {}", what, e)),
            Ok(l) => {
                if let Err(e) = same_content(what, &orig, price, &l) {
                    out.push(format!("(input aggregates {}/{}/{}) {}", lv, lh, lc, e));
                }
            }
        }
    };
    let mut snap: PriceLevelSnapshot = level.snapshot();
    snap.visible_quantity = lv;
    snap.hidden_quantity = lh;
    snap.order_count = lc;
    check(
        "from_snapshot",
        PriceLevel::from_snapshot(snap.clone()).map_err(|e| e.to_string()),
    );
    check("From<&Snapshot>", Ok(PriceLevel::from(&snap)));
    // a package over the lying snapshot, checksummed by the harness so that validation passes
    let payload = serde_json::to_vec(&snap).unwrap();
    let pkg = PriceLevelSnapshotPackage {
        version: 1,
        snapshot: snap.clone(),
        checksum: hex_sha256(&payload),
    };
    check(
        "from_snapshot_package",
        PriceLevel::from_snapshot_package(pkg.clone()).map_err(|e| e.to_string()),
    );
    match pkg.to_json() {
        Ok(j) => check(
            "from_snapshot_json",
            PriceLevel::from_snapshot_json(&j).map_err(|e| e.to_string()),
        ),
        Err(e) => check("from_snapshot_json", Err(format!("package to_json failed: {}", e))),
    }
    // the library's own package constructor fed the lying snapshot
    match PriceLevelSnapshotPackage::new(snap.clone()) {
        Ok(p2) => {
            check(
                "SnapshotPackage::new(lying) -> from_snapshot_package",
                PriceLevel::from_snapshot_package(p2.clone()).map_err(|e| e.to_string()),
            );
            match p2.to_json() {
                Ok(j) => check(
                    "SnapshotPackage::new(lying) -> to_json -> from_snapshot_json",
                    PriceLevel::from_snapshot_json(&j).map_err(|e| e.to_string()),
                ),
                Err(e) => check("SnapshotPackage::new(lying) -> to_json", Err(e.to_string())),
            }
        }
        Err(e) => check("SnapshotPackage::new(lying)", Err(e.to_string())),
    }
    let mut data = PriceLevelData::from(level);
    data.visible_quantity = lv;
    data.hidden_quantity = lh;
    data.order_count = lc;
    let dj = serde_json::to_string(&data).unwrap();
    check(
        "TryFrom<PriceLevelData>",
        PriceLevel::try_from(data).map_err(|e| e.to_string()),
    );
    check(
        "serde_json (lying PriceLevelData JSON)",
        serde_json::from_str::<PriceLevel>(&dj).map_err(|e| e.to_string()),
    );
    // text form with edited aggregate fields
    let txt = level.to_string();
    let lied = txt
        .replacen(
            &format!("visible_quantity={};", orig.vis),
            &format!("visible_quantity={};", lv),
            1,
        )
        .replacen(
            &format!("hidden_quantity={};", orig.hid),
            &format!("hidden_quantity={};", lh),
            1,
        )
        .replacen(
            &format!("order_count={};", orig.count),
            &format!("order_count={};", lc),
            1,
        );
    check("FromStr (lying text)", lied.parse::<PriceLevel>().map_err(|e| e.to_string()));
    out
}

pub fn c10() -> SeqCheck {
    let mut cfgs = modes_general();
    for c in cfgs.iter_mut() {
        // no rebuild operations inside the history: the judge re-executes the operation list on a
        // fresh level, and a level rebuilt from a listing with timestamp ties gets a queue order
        // that depends on DashMap's per-instance hasher, so the re-execution could diverge from
        // the run the operations were generated against (the round-trips themselves are applied
        // by the judge to copies, at random points)
        c.op_w[8] = 0;
    }
    let mut nm = GenCfg::base("non-monotone-ts");
    nm.ts = TsMode::NonMonotone;
    cfgs.push(nm);
    SeqCheck {
        prop: "C10",
        cfgs,
        judge: |tr, part| {
            let mut fds = Vec::new();
            let ops = tr.ops();
            let mut rng = Rng::new(tr.hash() ^ 0xc10);
            let mut counters = [0u64; 7];
            let mut adv = 0u64;
            let mut nontrivial = false;
            let mut touched = false;
            let mut aborted = false;
            {
                let mut at = |i: usize, level: &PriceLevel, last: bool| {
                    if last || rng.chance(1, 4) {
                        for e in roundtrips(level, &mut counters) {
                            fds.push(fd(i, e));
                        }
                        for e in adversarial(level, &mut rng, &mut adv) {
                            fds.push(fd(i, e));
                        }
                    }
                };
                let mut sut = Sut::new(tr.price, tr.ns);
                for (i, op) in ops.iter().enumerate() {
                    crate::hook::mute(|| at(i, &sut.level, false));
                    let (res, _) = sut.apply(op);
                    if let HRes::Matched(m) = &res {
                        if !m.transactions.is_empty() && sut.level.order_count() > 0 {
                            touched = true;
                        }
                    }
                    if matches!(res, HRes::Panicked(_) | HRes::Overrun) {
                        aborted = true;
                        break;
                    }
                    if touched && sut.level.order_count() > 0 {
                        nontrivial = true;
                    }
                }
                if !aborted {
                    crate::hook::mute(|| at(ops.len(), &sut.level, true));
                }
            }
            part.add("adversarial_aggregate_inputs", adv);
            part.add("round_trips", counters.iter().sum::<u64>());
            for (i, n) in counters.iter().enumerate() {
                part.add(&format!("route:{}", ROUTE_NAMES[i]), *n);
            }
            fds.truncate(5);
            (fds, nontrivial)
        },
    }
}

// ---------------------------------------------------------------------------------------------
// C11
// ---------------------------------------------------------------------------------------------

pub const SIG_K3A: &str = "snapshot-lists-by-timestamp";
pub const SIG_K3B: &str = "surplus-tickets-not-snapshotted";

/// Drives the ticket model through a recorded trace (positions predicted, per-order states
/// re-synchronised from the observations).  Returns the model and the number of disagreements.
pub fn drive_sim(tr: &Trace) -> (Sim, u64, u64) {
    let mut sim = Sim::new(tr.price);
    let mut clock = 0u64;
    let mut mismatches = 0u64;
    for o in &tr.initial.orders {
        clock += 1;
        sim.add(*o, clock);
    }
    for r in &tr.recs {
        clock += 1;
        match (&r.op, &r.res) {
            (HOp::Add(o), HRes::Added(_)) => sim.add(*o, clock),
            (HOp::Update(u), HRes::Updated(_)) => sim.update(u, clock),
            (HOp::Rebuild(_), HRes::Rebuilt(Ok(()))) => {
                sim = Sim::from_listing(tr.price, &r.after.orders, clock);
            }
            (HOp::Match { qty, .. }, HRes::Matched(m)) => {
                let (pred, _) = sim.do_match(*qty, &mut clock);
                let got: Vec<(u128, u64)> = m
                    .transactions
                    .as_vec()
                    .iter()
                    .map(|t| (model::key(&t.maker_order_id), t.quantity))
                    .collect();
                let want: Vec<(u128, u64)> = pred.iter().map(|p| (p.maker, p.qty)).collect();
                if got != want {
                    mismatches += 1;
                }
            }
            _ => {}
        }
        let same = sim.live.len() == r.after.orders.len()
            && r.after.orders.iter().all(|o| sim.live.get(&model::key(&model::id_of(o))) == Some(o));
        if !same {
            mismatches += 1;
            sim.resync(&r.after.orders, clock);
        }
    }
    (sim, clock, mismatches)
}

fn makers(tr: &Trace) -> Vec<Vec<(u128, u64)>> {
    tr.recs
        .iter()
        .filter_map(|r| match &r.res {
            HRes::Matched(m) => Some(
                m.transactions
                    .as_vec()
                    .iter()
                    .map(|t| (model::key(&t.maker_order_id), t.quantity))
                    .collect(),
            ),
            _ => None,
        })
        .collect()
}

fn sim_makers(sim: &mut Sim, ops: &[HOp], clock: &mut u64) -> Vec<Vec<(u128, u64)>> {
    let mut out = Vec::new();
    for op in ops {
        *clock += 1;
        match op {
            HOp::Add(o) => sim.add(*o, *clock),
            HOp::Update(u) => sim.update(u, *clock),
            HOp::Match { qty, .. } => {
                let (p, _) = sim.do_match(*qty, clock);
                out.push(p.iter().map(|x| (x.maker, x.qty)).collect());
            }
            _ => {}
        }
    }
    out
}

pub fn modes_restore() -> Vec<GenCfg> {
    let mut v = Vec::new();
    let mk = |name: &'static str, ts: TsMode, w: [u32; 9], exact: bool, reuse: bool| {
        let mut c = GenCfg::base(name);
        c.ts = ts;
        c.op_w = w;
        c.exact_fills = exact;
        c.reuse_ids = reuse;
        c.len = (3, 25);
        c.zero_pct = if exact { 0 } else { 3 };
        c
    };
    // clean: increasing timestamps, exact fills, no id re-use, no amends -> restore must be equivalent
    v.push(mk("clean-increasing", TsMode::Increasing, [40, 30, 10, 0, 0, 0, 3, 0, 0], true, false));
    v.push(mk("increasing-partial-fills", TsMode::Increasing, [35, 40, 8, 8, 2, 2, 2, 0, 0], false, true));
    v.push(mk("ties", TsMode::Ties, [40, 30, 8, 8, 2, 2, 2, 0, 0], false, true));
    v.push(mk("non-monotone", TsMode::NonMonotone, [40, 30, 8, 8, 2, 2, 2, 0, 0], false, true));
    v.push(mk("clean-adds-only", TsMode::Increasing, [70, 0, 15, 0, 0, 0, 5, 0, 0], true, false));
    let mut churn = mk("cancel-churn-long", TsMode::NonMonotone, [40, 8, 36, 4, 1, 1, 5, 0, 0], false, true);
    churn.len = (100, 300);
    churn.max_resting = 6;
    v.push(churn);
    let mut zz = mk("undisplayed-then-amended-up", TsMode::Increasing, [24, 36, 3, 30, 3, 3, 1, 0, 0], false, false);
    zz.kind_w = [2, 7, 1, 0, 0, 0, 2];
    zz.zero_pct = 35;
    zz.hid_zero_pct = Some(10);
    zz.max_resting = 6;
    zz.len = (10, 50);
    v.push(zz);
    let mut burst = mk("cancel-burst", TsMode::NonMonotone, [46, 1, 44, 2, 0, 0, 6, 0, 0], false, true);
    burst.len = (160, 400);
    burst.max_resting = 5;
    burst.absent_pct = 3;
    v.push(burst);
    v
}

pub fn c11() -> SeqCheck {
    SeqCheck {
        prop: "C11",
        cfgs: modes_restore(),
        judge: |tr, part| {
            let mut fds = Vec::new();
            if tr.aborted {
                return (fds, false);
            }
            let n = tr.recs.len();
            let ops = tr.ops();
            let mut rng = Rng::new(tr.hash() ^ 0xc11);
            // the original: the history replayed on a live level
            let mut orig = Sut::new(tr.price, tr.ns);
            hseq::replay_on(&mut orig, &ops);
            let listing: Vec<Order> = crate::hook::mute(|| orig.level.snapshot().orders.iter().map(|a| **a).collect());
            // the restored twin through one of the four snapshot routes
            let route = rng.below(4) as u8;
            let restored = match crate::hook::mute(|| hseq::rebuild(&orig.level, route)) {
                Ok(l) => l,
                Err(e) => {
                    fds.push(fd(n, format!("restore via {} failed: {}", ROUTE_NAMES[route as usize], e)));
                    return (fds, false);
                }
            };
            let mut rest = Sut {
                level: restored,
                idgen: pricelevel::UuidGenerator::new(tr.ns),
            };
            // a continuation, generated online against the original, replayed on the restored twin
            let mut ccfg = GenCfg::base("continuation");
            ccfg.op_w = [15, 40, 8, 24, 3, 3, 3, 0, 0];
            ccfg.reuse_ids = false;
            let mut g = hseq::Gen::new(ccfg, Rng::new(rng.next_u64()));
            g.price = tr.price;
            g.skip_ids(100_000);
            let n_cont = 2 + rng.usize_below(8);
            let cont_o = hseq::continue_run(&mut g, &mut orig, n_cont, true);
            let cops = cont_o.ops();
            let cont_r = hseq::replay_on(&mut rest, &cops);
            part.add(&format!("route:{}", ROUTE_NAMES[route as usize]), 1);
            let (mo, mr) = (makers(&cont_o), makers(&cont_r));
            // the ticket model's view of both
            let (mut sim_o, mut clock, mism) = drive_sim(tr);
            let eff = sim_o.effective_order();
            let listed: Vec<u128> = listing.iter().map(|o| model::key(&model::id_of(o))).collect();
            let order_differs = eff != listed;
            let surplus = sim_o.surplus_ids();
            let has_surplus = !surplus.is_empty();
            let nontrivial = listing.len() >= 2 && mo.iter().any(|m| !m.is_empty());
            if mo == mr {
                if !order_differs && !has_surplus {
                    part.add("pairs_where_equivalence_was_required_and_held", 1);
                } else {
                    part.add("pairs_equal_although_a_known_mechanism_was_present", 1);
                }
                return (fds, nontrivial);
            }
            part.add("pairs_that_diverged", 1);
            let mut sim_r = Sim::from_listing(tr.price, &listing, clock);
            let mut c2 = clock;
            let po = sim_makers(&mut sim_o, &cops, &mut clock);
            let pr = sim_makers(&mut sim_r, &cops, &mut c2);
            let describe = |x: &Vec<Vec<(u128, u64)>>| -> String {
                x.iter()
                    .map(|m| {
                        m.iter()
                            .map(|(k, q)| format!("{:x}:{}", k >> 64, q))
                            .collect::<Vec<_>>()
                            .join(",")
                    })
                    .collect::<Vec<_>>()
                    .join(" | ")
            };
            if mism > 0 || po != mo || pr != mr {
                fds.push(fd(
                    n,
                    format!(
                        "restored level (via {}) trades differently and the catalogued queue mechanics do not predict it: original [{}] (model [{}]); restored [{}] (model [{}])",
                        ROUTE_NAMES[route as usize],
                        describe(&mo),
                        describe(&po),
                        describe(&mr),
                        describe(&pr)
                    ),
                ));
                return (fds, nontrivial);
            }
            let mut attributed = false;
            if order_differs {
                part.known(SIG_K3A, 1);
                attributed = true;
            }
            if has_surplus {
                part.known(SIG_K3B, 1);
                attributed = true;
            }
            if !attributed {
                fds.push(fd(
                    n,
                    format!(
                        "restored level (via {}) trades differently although the snapshot lists the orders in queue order and no surplus ticket exists: original [{}] restored [{}]",
                        ROUTE_NAMES[route as usize],
                        describe(&mo),
                        describe(&mr)
                    ),
                ));
            }
            (fds, nontrivial)
        },
    }
}
