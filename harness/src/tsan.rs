//! Thorough-tier ThreadSanitizer backstop (C08): the queue hammer and a few hundred free-running
//! level / queue / generator programs in a `-Zsanitizer=thread -Zbuild-std` build.  Its only
//! possible finding is a data race inside the dependencies on the paths the workloads drive
//! (pricelevel itself is safe code over atomics).

use crate::report::{verif_dir, Report};
use serde_json::json;
use std::process::Command;
use std::time::Instant;

pub fn run(rep: &mut Report) {
    let dir = format!("{}/harness", verif_dir());
    let t0 = Instant::now();
    let build = Command::new("cargo")
        .current_dir(&dir)
        .env("RUSTFLAGS", "-Zsanitizer=thread")
        .env("CARGO_NET_OFFLINE", "true")
        .env("CARGO_TARGET_DIR", format!("{}/target/tsan", dir))
        .args(["+nightly", "build", "--offline", "--release", "-Zbuild-std", "--target", "x86_64-unknown-linux-gnu"])
        .output();
    let build = match build {
        Ok(b) => b,
        Err(e) => {
            rep.inconclusive(format!("ThreadSanitizer build could not be started: {}", e));
            return;
        }
    };
    if !build.status.success() {
        let err = String::from_utf8_lossy(&build.stderr);
        let tail: String = err.lines().rev().take(8).collect::<Vec<_>>().into_iter().rev().collect::<Vec<_>>().join(" | ");
        rep.inconclusive(format!("ThreadSanitizer build failed: {}", &tail[..tail.len().min(500)]));
        return;
    }
    rep.set("tsan_build_s", json!(t0.elapsed().as_secs()));
    let exe = format!("{}/target/tsan/x86_64-unknown-linux-gnu/release/plv", dir);
    let t1 = Instant::now();
    let run = Command::new(&exe)
        .env("TSAN_OPTIONS", "halt_on_error=1 exitcode=66 second_deadlock_stack=1")
        .env("PLV_DIR", "/nonexistent-so-nothing-is-written")
        .args(["stress-queue", "12", "60000"])
        .output();
    let run = match run {
        Ok(r) => r,
        Err(e) => {
            rep.inconclusive(format!("ThreadSanitizer binary could not be run: {}", e));
            return;
        }
    };
    rep.set("tsan_run_s", json!(t1.elapsed().as_secs()));
    let out = String::from_utf8_lossy(&run.stdout).to_string();
    let err = String::from_utf8_lossy(&run.stderr).to_string();
    rep.set("tsan_workload", json!("stress-queue: 12 threads x 60000 queue operations + 200 free-running level / queue / generator programs"));
    if err.contains("WARNING: ThreadSanitizer") || run.status.code() == Some(66) {
        let at = err.find("WARNING: ThreadSanitizer").unwrap_or(0);
        let mut b = (at + 2500).min(err.len());
        while !err.is_char_boundary(b) {
            b -= 1;
        }
        rep.violation(
            "ThreadSanitizer reported a data race on the queue / level workload".into(),
            json!({"engine": "tsan", "report": &err[at..b]}),
        );
    } else if !run.status.success() {
        if out.contains("STRESS-QUEUE") {
            rep.violation(
                format!("the workload's own checkers failed in the ThreadSanitizer build: {}", out.lines().last().unwrap_or("")),
                json!({"engine": "tsan", "stdout": out}),
            );
        } else {
            rep.inconclusive(format!("ThreadSanitizer run exited with {:?} without a verdict", run.status.code()));
        }
    } else {
        rep.add("tsan_clean_runs", 1);
    }
}
