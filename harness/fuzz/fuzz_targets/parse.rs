#![no_main]
//! One libFuzzer target for every text / JSON entry point of pricelevel (C18): the first byte
//! selects the entry point, the rest is the input.  A panic, abort or timeout is a finding.
use libfuzzer_sys::fuzz_target;
use pricelevel::verif::{PriceLevelSnapshotPackage, PriceLevelStatistics, TransactionList};
use pricelevel::*;
use std::str::FromStr;

fuzz_target!(|data: &[u8]| {
    if data.is_empty() {
        return;
    }
    let s = match std::str::from_utf8(&data[1..]) {
        Ok(s) => s,
        Err(_) => return,
    };
    match data[0] % 32 {
        0 => drop(OrderType::<()>::from_str(s)),
        1 => drop(OrderUpdate::from_str(s)),
        2 => drop(OrderId::from_str(s)),
        3 => drop(Side::from_str(s)),
        4 => drop(TimeInForce::from_str(s)),
        5 => drop(PegReferenceType::from_str(s)),
        6 => drop(Transaction::from_str(s)),
        7 => drop(TransactionList::from_str(s)),
        8 => drop(MatchResult::from_str(s)),
        9 => drop(PriceLevel::from_str(s)),
        10 => drop(PriceLevelSnapshot::from_str(s)),
        11 => drop(PriceLevelStatistics::from_str(s)),
        12 => drop(OrderQueue::from_str(s)),
        13 => drop(serde_json::from_str::<OrderType<()>>(s)),
        14 => drop(serde_json::from_str::<OrderUpdate>(s)),
        15 => drop(serde_json::from_str::<OrderId>(s)),
        16 => drop(serde_json::from_str::<TimeInForce>(s)),
        17 => drop(serde_json::from_str::<Transaction>(s)),
        18 => drop(serde_json::from_str::<TransactionList>(s)),
        19 => drop(serde_json::from_str::<MatchResult>(s)),
        20 => drop(serde_json::from_str::<PriceLevel>(s)),
        21 => drop(serde_json::from_str::<PriceLevelData>(s)),
        22 => drop(serde_json::from_str::<PriceLevelSnapshot>(s)),
        23 => drop(serde_json::from_str::<PriceLevelSnapshotPackage>(s)),
        24 => drop(serde_json::from_str::<PriceLevelStatistics>(s)),
        25 => drop(serde_json::from_str::<OrderQueue>(s)),
        26 => drop(PriceLevel::from_snapshot_json(s)),
        27 => drop(serde_json::from_str::<Side>(s)),
        28 => drop(serde_json::from_str::<UuidGenerator>(s)),
        _ => drop(PriceLevelSnapshotPackage::from_json(s)),
    }
});
