#!/bin/sh
# usage: ./check.sh <PROPERTY-ID> <quick|thorough>
# Rebuilds the harness against /repo's current working tree (feature verif-hooks on) and runs
# the check.  exit 0 = held on everything explored, 1 = VIOLATION line printed,
# 2 = undecided (nothing non-trivial observed), 3 = harness / build error.
set -u
ID="$1"; TIER="${2:-${VERIF_TIER:-quick}}"
DIR="$(cd "$(dirname "$0")" && pwd)"
export PLV_DIR="$DIR"
export CARGO_NET_OFFLINE=true
cd "$DIR/harness" || exit 3
if ! cargo build --release --offline >"$DIR/harness/build.log" 2>&1; then
    echo "BUILD-ERROR: the harness does not build against /repo (see harness/build.log)"
    tail -n 30 "$DIR/harness/build.log"
    exit 3
fi
exec ./target/release/plv check "$ID" --tier "$TIER" --seed "${VERIF_SEED:-1}"
