#!/usr/bin/env python3
"""Rebuilds /verif/seeded/RESULTS.md from every seeded/<id>/detected.txt (written by tools/seed_all.sh)."""
import json, os, glob, re, datetime
rows=[]
for d in sorted(glob.glob('/verif/seeded/C*-*'), key=lambda p:(p.split('/')[-1].split('-')[0], int(p.split('-')[-1]))):
    name=os.path.basename(d); prop=name.split('-')[0]
    det=os.path.join(d,'detected.txt')
    if not os.path.exists(det): continue
    res={}
    for l in open(det):
        m=re.match(r'^(C\d+) exit=(\d+)',l.strip())
        if m: res[m.group(1)]=int(m.group(2))
    needs=''
    try: needs=json.load(open(os.path.join(d,'meta.json'))).get('needs','')
    except Exception: pass
    needs=' '.join(str(needs).split())[:170].replace('|','/')
    own={1:'FIRES',0:'silent'}.get(res.get(prop),'exit=%s'%res.get(prop))
    fired=' '.join(k for k,v in res.items() if k!=prop and v==1)
    silent=' '.join(k for k,v in res.items() if v==0)
    rows.append((name,needs,own,fired,silent))
out=['# Seeded changes (written by independent sub-agents from the property text alone) vs. the quick checks','',
     'Regenerated %s from seeded/<id>/detected.txt (quick tier, seed 1).  "own" = the check of the property the change was written against.  <ID>-1..3: first round; <ID>-4..6: second round (changes that need a conjunction of uncommon circumstances); <ID>-7..9 (C03 C08 C12 C13 C15 only): third round (concurrency defects that need a deep interleaving: three threads or three context switches).'%datetime.datetime.utcnow().strftime('%Y-%m-%dT%H:%MZ'),'',
     '%d changes; own check fires on %d; caught by at least one check: %d.'%(len(rows),sum(1 for r in rows if r[2]=='FIRES'),sum(1 for r in rows if r[2]=='FIRES' or r[3])),'',
     '| seeded change | what it needs to manifest | own check | other checks that fire | silent |','|---|---|---|---|---|']
for r in rows: out.append('| %s | %s | %s | %s | %s |'%r)
# property-agnostic bug seeds (B<i>-<n>): all 19 quick checks were run against each
notes={}
try: notes=json.load(open('/verif/seeded/B_NOTES.json'))
except Exception: pass
brows=[]
for d in sorted(glob.glob('/verif/seeded/B*-*')):
    name=os.path.basename(d); det=os.path.join(d,'detected.txt')
    if not os.path.exists(det): continue
    fired=[]
    for l in open(det):
        m=re.match(r'^(C\d+) exit=(\d+)',l.strip())
        if m and m.group(2)=='1': fired.append(m.group(1))
    summ=''
    try: summ=json.load(open(os.path.join(d,'meta.json'))).get('summary','')
    except Exception: pass
    summ=' '.join(str(summ).split())[:170].replace('|','/')
    brows.append((name,summ,' '.join(fired) if fired else 'none', notes.get(name,'')))
if brows:
    out+=['','## Property-agnostic bug seeds','',
          'Sixteen further bugs written by four sub-agents that were given NO property, only a file area ("a realistic bug that changes observable behaviour in some uncommon circumstance, tests still pass").  All 19 quick checks were run against each.  %d are caught; the other %d change behaviour that none of the 19 given properties speaks about (last column).'%(sum(1 for b in brows if b[2]!='none'),sum(1 for b in brows if b[2]=='none')),'',
          '| bug | summary | checks that fire | if none: why |','|---|---|---|---|']
    for b in brows: out.append('| %s | %s | %s | %s |'%b)
open('/verif/seeded/RESULTS.md','w').write('\n'.join(out)+'\n')
print(out[4])
