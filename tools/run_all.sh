#!/bin/bash
# usage: run_all.sh <quick|thorough> [seed]   -- every registered check once; prints one line each
TIER="${1:-quick}"; export VERIF_SEED="${2:-1}"
cd /verif
for id in $(python3 -c "import json;print(' '.join(c['property_id'] for c in json.load(open('MANIFEST.json'))['checks']))"); do
  t0=$(date +%s)
  out=$(./check.sh $id $TIER 2>&1); code=$?
  t1=$(date +%s)
  echo "$id exit=$code $((t1-t0))s viol=$(echo "$out" | grep -c '^VIOLATION') known=$(echo "$out" | grep -c '^KNOWN-FINDING') inconcl=$(echo "$out" | grep -c '^INCONCLUSIVE') | $(echo "$out" | grep -m1 '^\[')"
  echo "$out" | grep -E '^VIOLATION|violation:|^INCONCLUSIVE|^UNDECIDED|BUILD-ERROR' | head -4
done
