#!/bin/bash
# usage: refactor_run.sh <diff>   -- applies a behaviour-preserving refactoring to /repo, runs ALL quick
# checks (every one must stay silent: exit 0), reverts.  False-alarm calibration.
P="$(readlink -f "$1")"
git -C /repo diff --quiet || { echo "/repo is dirty"; exit 3; }
trap 'git -C /repo checkout -q -- .' EXIT
git -C /repo apply "$P" || { echo "does not apply"; exit 3; }
bad=0
for id in $(python3 -c "import json;print(' '.join(c['property_id'] for c in json.load(open('/verif/MANIFEST.json'))['checks']))"); do
  out=$(/verif/check.sh $id quick 2>&1); code=$?
  if [ $code -ne 0 ]; then bad=1; echo "$id exit=$code $(echo "$out" | grep -m1 'violation:\|INCONCL\|BUILD\|UNDECIDED' | cut -c1-300)"; fi
done
[ $bad -eq 0 ] && echo "$(basename $P): all checks silent" || echo "$(basename $P): ALARM(S) ABOVE"
