#!/bin/bash
# usage: seed_own.sh <VERIF_SEED> [glob fragment]   -- for every seeded change, run only the check of the property it was
# written against (or, if that one is known to be outside its quantifier, C03) at another seed; prints the
# ones that stay silent.  Detection margin across seeds.
export VERIF_SEED="${1:-2}"
cd /verif
for d in seeded/C*${2:-}*/; do
  n=$(basename $d); prop=${n%%-*}
  case "$n" in C01-3|C02-2|C02-5) prop=C03;; esac
  res=$(tools/seedrun.sh $d/patch.diff $prop 2>&1)
  code=$(echo "$res" | awk -v p=$prop '$1==p{print $2}')
  nv=$(echo "$res" | sed -n 's/.*violations_lines=\([0-9]*\).*/\1/p')
  echo "$n $prop $code lines=$nv"
done
