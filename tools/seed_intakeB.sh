#!/bin/bash
# usage: seed_intakeB.sh <i>   (property-agnostic bug seeds: worktree /tmp/wt-B<i>, stored as seeded/B<i>-<N>)
I="$1"; WT="/tmp/wt-B$I"
for n in 1 2 3 4; do
  [ -f "$WT/out/patch$n.diff" ] || continue
  log=$(/verif/tools/confirm_seed.sh "$WT" $n "" 2>&1); code=$?
  if [ $code -ne 0 ]; then log=$(/verif/tools/confirm_seed.sh "$WT" $n "--features verif-hooks" 2>&1); code=$?; fi
  if [ $code -eq 0 ]; then
     d=/verif/seeded/B$I-$n; mkdir -p $d
     cp "$WT/out/patch$n.diff" $d/patch.diff; cp "$WT/out/demo$n.rs" $d/demo.rs; cp "$WT/out/meta$n.json" $d/meta.json
     echo "$log" > $d/confirm.log
     echo "B$I-$n CONFIRMED"
  else
     echo "B$I-$n NOT CONFIRMED"; echo "$log" | tail -12
  fi
done
