#!/bin/bash
# usage: seedrun.sh <patch.diff> <ID> [<ID> ...]   (tier via TIER=quick|thorough)
# Applies a seeded change to /repo, runs the named checks, and ALWAYS reverts /repo afterwards.
set -u
P="$(readlink -f "$1")"; shift
TIER="${TIER:-quick}"
git -C /repo diff --quiet || { echo "/repo is dirty, refusing"; exit 3; }
trap 'git -C /repo checkout -q -- .; ' EXIT
git -C /repo apply "$P" || { echo "patch does not apply to /repo"; exit 3; }
for id in "$@"; do
  out=$(PLV_NO_MIRI=1 PLV_NO_TSAN=1 /verif/check.sh $id $TIER 2>&1); code=$?
  nv=$(echo "$out" | grep -c '^VIOLATION')
  first=$(echo "$out" | grep -m1 'violation:' | cut -c1-260)
  echo "$id exit=$code violations_lines=$nv $first"
done
