#!/bin/bash
# usage: seed_all.sh [filter]
# Runs, for every confirmed seeded change under /verif/seeded/, the quick check of the property it
# was written against plus the closest relatives, and records the outcome in seeded/<id>/detected.txt
# and in seeded/RESULTS.md.  /repo is patched and reverted for each one (never committed).
cd /verif
declare -A REL=( [C01]="C01 C02 C05 C03" [C02]="C02 C05 C01 C03" [C03]="C03 C12 C08 C13" [C04]="C04 C11 C19" [C05]="C05 C01 C02" [C06]="C06 C04 C08"
 [C07]="C07 C01 C04" [C08]="C08 C03 C13" [C09]="C09 C10 C17" [C10]="C10 C09 C11 C01" [C11]="C11 C10 C04" [C12]="C12 C03" [C13]="C13 C03 C08"
 [C14]="C14 C03" [C15]="C15 C07" [C16]="C16 C17 C10" [C17]="C17 C16 C09" [C18]="C18 C16" [C19]="C19 C10 C11" )
F="${1:-}"
for d in seeded/C*$F*/; do
  n=$(basename $d); prop=${n%%-*}
  res=$(tools/seedrun.sh $d/patch.diff ${REL[$prop]} 2>&1)
  echo "$res" > $d/detected.txt
  own=$(echo "$res" | awk -v p=$prop '$1==p{print $2}')
  fired=$(echo "$res" | awk -v p=$prop '$1!=p && $2=="exit=1"{printf "%s ",$1}'); silent=$(echo "$res" | awk '$2=="exit=0"{printf "%s ",$1}')
  case "$own" in exit=1) o="FIRES";; exit=0) o="silent";; *) o="$own";; esac
  echo "$n own=$o others=[$fired] silent=[$silent]"
done
python3 tools/seed_meta.py
python3 tools/seed_results.py
