#!/bin/bash
# usage: thorough_all.sh [ids...]   -- runs the thorough tier of the named checks (default: all), one line each.
# Under `vp run --with-repo` the harness is pointed at the repo snapshot ($VP_RUN_REPO) so that
# edits made to /repo meanwhile (seeded patches being tested) do not leak into this run.
HERE="$(cd "$(dirname "$0")/.." && pwd)"
cd "$HERE"
if [ -n "${VP_RUN_REPO:-}" ]; then
  sed -i "s#path = \"/repo\"#path = \"$VP_RUN_REPO\"#" harness/Cargo.toml harness/fuzz/Cargo.toml
fi
IDS="$@"
[ -z "$IDS" ] && IDS=$(python3 -c "import json;print(' '.join(c['property_id'] for c in json.load(open('MANIFEST.json'))['checks']))")
for id in $IDS; do
  t0=$(date +%s)
  out=$(./check.sh $id thorough 2>&1); code=$?
  t1=$(date +%s)
  echo "$id exit=$code $((t1-t0))s viol=$(echo "$out" | grep -c '^VIOLATION') known=$(echo "$out" | grep -c '^KNOWN-FINDING') inconcl=$(echo "$out" | grep -c '^INCONCLUSIVE') | $(echo "$out" | grep -m1 '^\[')"
  echo "$out" | grep -E '^VIOLATION|violation:|^INCONCLUSIVE|^UNDECIDED|BUILD-ERROR|miri_|tsan_|libfuzzer_ex' | head -12
done
