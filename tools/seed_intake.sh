#!/bin/bash
# usage: seed_intake.sh <PROPERTY-ID>   (worktree /tmp/wt-<ID>/out/{patchN.diff,demoN.rs,metaN.json})
# Confirms each seeded change in its scratch worktree and, if confirmed, stores it under
# /verif/seeded/<ID>-<N>/ (patch.diff, demo.rs, meta.json, confirm.log).
ID="$1"; WT="/tmp/wt-$ID"
for n in 1 2 3 4; do
  [ -f "$WT/out/patch$n.diff" ] || continue
  log=$(/verif/tools/confirm_seed.sh "$WT" $n "--features verif-hooks" 2>&1); code=$?
  if [ $code -ne 0 ]; then
     # some demos are written for the plain build only
     log=$(/verif/tools/confirm_seed.sh "$WT" $n "" 2>&1); code=$?
  fi
  if [ $code -eq 0 ]; then
     d=/verif/seeded/$ID-$n; mkdir -p $d
     cp "$WT/out/patch$n.diff" $d/patch.diff; cp "$WT/out/demo$n.rs" $d/demo.rs; cp "$WT/out/meta$n.json" $d/meta.json
     echo "$log" > $d/confirm.log
     echo "$ID-$n CONFIRMED"
  else
     echo "$ID-$n NOT CONFIRMED"; echo "$log" | tail -12
  fi
done
