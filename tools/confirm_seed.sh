#!/bin/bash
# usage: confirm_seed.sh <worktree> <N> [cargo feature flags for the demo, e.g. "--features verif-hooks"]
# Confirms a seeded change in a scratch worktree: clean tree -> demo passes; with patch ->
# both builds ok, full existing suite passes, demo fails.  Leaves the worktree clean.
set -u
WT="$1"; N="$2"; FEAT="${3:-}"
cd "$WT" || exit 3
git checkout -q -- . ; git clean -fdq -e out -e target -e Cargo.lock
cp out/demo$N.rs tests/demo$N.rs
printf '\n[[test]]\nname = "demo%s"\npath = "tests/demo%s.rs"\n' "$N" "$N" >> Cargo.toml
echo "== clean tree: demo must pass"
if cargo test --offline $FEAT --test demo$N >out/confirm$N.clean.log 2>&1; then echo "clean: demo PASS (ok)"; C=0; else echo "clean: demo FAIL (bad)"; C=1; fi
git apply out/patch$N.diff || { echo "patch does not apply"; exit 3; }
echo "== with patch: builds"
cargo build --offline >/dev/null 2>&1 && echo "build ok" || { echo "build FAILED"; C=1; }
cargo build --offline --features verif-hooks >/dev/null 2>&1 && echo "build(hooks) ok" || { echo "build(hooks) FAILED"; C=1; }
echo "== with patch: existing suite"
if cargo test --offline --test tests --lib --doc >out/confirm$N.suite.log 2>&1 || cargo test --offline --lib --test tests > out/confirm$N.suite.log 2>&1; then echo "suite PASS (ok): $(grep -h '^test result' out/confirm$N.suite.log | tr '\n' ' ')"; else echo "suite FAIL (bad)"; grep -h "^test result\|FAILED\|failed" out/confirm$N.suite.log | head; C=1; fi
echo "== with patch: demo must fail"
if cargo test --offline $FEAT --test demo$N >out/confirm$N.patched.log 2>&1; then echo "patched: demo PASS (bad: not a demonstration)"; C=1; else echo "patched: demo FAIL (ok)"; fi
git checkout -q -- . ; rm -f tests/demo$N.rs
exit $C
