#!/bin/bash
# usage: seed_intake3.sh <PROPERTY-ID>   (third wave: worktree /tmp/wt3-<ID>, stored as <ID>-7..9)
ID="$1"; WT="/tmp/wt3-$ID"
for n in 1 2 3; do
  [ -f "$WT/out/patch$n.diff" ] || continue
  m=$((n+6))
  log=$(/verif/tools/confirm_seed.sh "$WT" $n "--features verif-hooks" 2>&1); code=$?
  if [ $code -ne 0 ]; then log=$(/verif/tools/confirm_seed.sh "$WT" $n "" 2>&1); code=$?; fi
  if [ $code -eq 0 ]; then
     d=/verif/seeded/$ID-$m; mkdir -p $d
     cp "$WT/out/patch$n.diff" $d/patch.diff; cp "$WT/out/demo$n.rs" $d/demo.rs; cp "$WT/out/meta$n.json" $d/meta.json
     echo "$log" > $d/confirm.log
     echo "$ID-$m CONFIRMED"
  else
     echo "$ID-$m NOT CONFIRMED"; echo "$log" | tail -12
  fi
done
