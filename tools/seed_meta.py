#!/usr/bin/env python3
"""Adds to every seeded/<id>/meta.json what the framework owner ran: the confirmation in a scratch
worktree (confirm.log) and the outcome of the quick checks with the patch applied to /repo (detected.txt)."""
import json, os, glob, re
for d in sorted(glob.glob('/verif/seeded/[CB]*-*')):
    mp = os.path.join(d, 'meta.json')
    if not os.path.exists(mp):
        continue
    m = json.load(open(mp))
    name = os.path.basename(d)
    m['seeded_id'] = name
    m.setdefault('property', name.split('-')[0])
    conf = open(os.path.join(d, 'confirm.log')).read() if os.path.exists(os.path.join(d, 'confirm.log')) else ''
    m['confirmed_in_scratch_worktree'] = {
        'how': 'tools/confirm_seed.sh <worktree> <N>: clean tree -> demo passes; patch applied -> cargo build with and without --features verif-hooks, existing suite (361 tests) passes, demo fails',
        'clean_demo_passes': 'clean: demo PASS' in conf,
        'suite_passes_with_patch': 'suite PASS' in conf,
        'patched_demo_fails': 'patched: demo FAIL' in conf,
    }
    det = os.path.join(d, 'detected.txt')
    if os.path.exists(det):
        runs = {}
        for l in open(det):
            mm = re.match(r'^(C\d+) exit=(\d+) violations_lines=(\d+)\s*(.*)$', l.strip())
            if mm:
                runs[mm.group(1)] = {'exit': int(mm.group(2)), 'first_violation': mm.group(4)[:300]}
        m['quick_checks_run_with_patch_applied_to_repo'] = {
            'how': 'tools/seedrun.sh: git -C /repo apply patch.diff; ./check.sh <ID> quick for each listed check; git -C /repo checkout -- .',
            'results': runs,
            'caught_by': sorted(k for k, v in runs.items() if v['exit'] == 1),
        }
    json.dump(m, open(mp, 'w'), indent=1)
print('meta updated')
