#!/bin/bash
# usage: seed_intake4.sh <group>   (fourth wave, "scale / threshold triggered": worktree /tmp/wt4-<group>;
# each out/metaN.json names its property; stored as seeded/<ID>-<next index from 10>)
G="$1"; WT="/tmp/wt4-$G"
for n in 1 2 3 4 5 6 7 8; do
  [ -f "$WT/out/patch$n.diff" ] || continue
  ID=$(python3 -c "import json;print(json.load(open('$WT/out/meta$n.json'))['property'])") || continue
  log=$(/verif/tools/confirm_seed.sh "$WT" $n "" 2>&1); code=$?
  if [ $code -ne 0 ]; then log=$(/verif/tools/confirm_seed.sh "$WT" $n "--features verif-hooks" 2>&1); code=$?; fi
  if [ $code -eq 0 ]; then
     m=10; while [ -d /verif/seeded/$ID-$m ]; do m=$((m+1)); done
     d=/verif/seeded/$ID-$m; mkdir -p $d
     cp "$WT/out/patch$n.diff" $d/patch.diff; cp "$WT/out/demo$n.rs" $d/demo.rs; cp "$WT/out/meta$n.json" $d/meta.json
     echo "$log" > $d/confirm.log
     echo "$G/$n -> $ID-$m CONFIRMED"
  else
     echo "$G/$n ($ID) NOT CONFIRMED"; echo "$log" | tail -12
  fi
done
